#!/usr/bin/env python3
"""Run registered checks against a seeded change.

  tools_seeded.py <seeded-dir-or-patch> [--checks C05,C02] [--tier quick] [--budget S] [--in-repo]

Default mode copies /repo/thejoker (with its built kernel) into a scratch tree under /dev/shm, applies
the patch there and points the checks at it through VERIF_REPO -- /repo is never touched, so several
mutants can be examined in parallel.  --in-repo does it the prescribed way for the final confirmation:
`git -C /repo apply`, run, `git -C /repo checkout -- .` straight afterwards.
Prints one line per check:  <check> exit=<rc> <first VIOLATION signature or ->.
"""
import argparse
import json
import os
import re
import shutil
import subprocess
import sys
import tempfile

HERE = os.path.dirname(os.path.abspath(__file__))
ALL = ["C02", "C03", "C05", "C06", "C10", "C12", "C13", "C14", "C16"]


def main():
    ap = argparse.ArgumentParser()
    ap.add_argument("target")
    ap.add_argument("--checks", default="")
    ap.add_argument("--tier", default="quick")
    ap.add_argument("--budget", default="")
    ap.add_argument("--workers", default="")
    ap.add_argument("--in-repo", action="store_true")
    ap.add_argument("--json", default="")
    a = ap.parse_args()
    patch = a.target if a.target.endswith(".diff") else os.path.join(a.target, "patch.diff")
    patch = os.path.abspath(patch)
    checks = [c for c in a.checks.split(",") if c] or ALL
    env = dict(os.environ)
    scratch = None
    try:
        if a.in_repo:
            st = subprocess.run(["git", "-C", "/repo", "status", "--porcelain"], capture_output=True, text=True).stdout.strip()
            if st:
                print("refusing: /repo is not clean:\n" + st)
                return 2
            r = subprocess.run(["git", "-C", "/repo", "apply", patch], capture_output=True, text=True)
            if r.returncode:
                print("patch does not apply to /repo: " + r.stderr)
                return 2
        else:
            scratch = tempfile.mkdtemp(prefix="verif-mut-", dir="/dev/shm")
            shutil.copytree("/repo/thejoker", os.path.join(scratch, "thejoker"), ignore=shutil.ignore_patterns("__pycache__", "*.pyc"))
            r = subprocess.run(["patch", "-p1", "-s", "-d", scratch, "-i", patch], capture_output=True, text=True)
            if r.returncode:
                print("patch does not apply: " + r.stdout + r.stderr)
                return 2
            env["VERIF_REPO"] = scratch
        results = {}
        for c in checks:
            cmd = [os.path.join(HERE, "check"), c, "--tier", a.tier, "--no-evidence"]
            if a.budget:
                cmd += ["--budget", a.budget]
            if a.workers:
                cmd += ["--workers", a.workers]
            if a.in_repo:
                # prescribed way: the patch is in /repo only while the check copies the working tree (about a second),
                # then `git -C /repo checkout -- .` straight away; the check goes on with its staged copy
                import time

                mark = tempfile.mktemp(prefix="verif-staged-", dir="/dev/shm")
                env2 = dict(env)
                env2["VERIF_STAGE_MARK"] = mark
                if c != checks[0]:
                    subprocess.run(["git", "-C", "/repo", "apply", patch], check=True)
                pr = subprocess.Popen(cmd, cwd=HERE, env=env2, stdout=subprocess.PIPE, stderr=subprocess.STDOUT, text=True)
                t0 = time.time()
                while not os.path.exists(mark) and pr.poll() is None and time.time() - t0 < 120:
                    time.sleep(0.1)
                subprocess.run(["git", "-C", "/repo", "checkout", "--", "."])
                out, _ = pr.communicate()
                if os.path.exists(mark):
                    os.unlink(mark)

                class R:
                    pass

                r = R()
                r.stdout, r.returncode = out, pr.returncode
            else:
                r = subprocess.run(cmd, cwd=HERE, env=env, capture_output=True, text=True)
            sigs = re.findall(r"signature=(\S+)", r.stdout)
            viol = re.findall(r"^VIOLATION property=(\S+) replay=(\S+)", r.stdout, re.M)
            herr = re.findall(r"^HARNESS-ERROR (.*)$", r.stdout, re.M)
            last = r.stdout.strip().splitlines()[-1] if r.stdout.strip() else ""
            results[c] = {"exit": r.returncode, "signatures": sorted(set(sigs)), "n_violation_lines": len(viol), "harness": herr[:2], "summary": last}
            print("%s exit=%d %s %s" % (c, r.returncode, ",".join(sorted(set(sigs))[:3]) or "-", ("HARNESS:" + herr[0][:200]) if herr else ""), flush=True)
        if a.json:
            with open(a.json, "w") as f:
                json.dump(results, f, indent=1)
    finally:
        if a.in_repo:
            subprocess.run(["git", "-C", "/repo", "checkout", "--", "."])
        if scratch:
            shutil.rmtree(scratch, ignore_errors=True)
    return 0


if __name__ == "__main__":
    sys.exit(main())
