#!/usr/bin/env python3
"""Compose seeded/<id>/meta.json from the sub-agent's description, my confirmation log and the check results."""
import glob, json, os, re
HERE = os.path.dirname(os.path.abspath(__file__))
rows = []
for d in sorted(glob.glob(os.path.join(HERE, "seeded", "C*-*m[0-9]"))):
    name = os.path.basename(d)
    am = json.load(open(os.path.join(d, "agent_meta.json"))) if os.path.exists(os.path.join(d, "agent_meta.json")) else {}
    conf = open(os.path.join(d, "confirm.txt")).read() if os.path.exists(os.path.join(d, "confirm.txt")) else ""
    res = {}
    for f in ("quick_result.json", "inrepo_result.json", "cross_result.json", "thorough_result.json"):
        p = os.path.join(d, f)
        if os.path.exists(p):
            res[f[:-5]] = json.load(open(p))
    def g(k):
        m = re.search(k + r"=(\S+)", conf)
        return m.group(1) if m else None
    tgt = name.split("-")[0]
    q = (res.get("inrepo_result") or res.get("quick_result") or {}).get(tgt, {})
    meta = {
        "id": name,
        "property": tgt,
        "title": am.get("title"),
        "what_it_breaks": am.get("what_it_breaks"),
        "needs_to_manifest": am.get("needs_to_manifest"),
        "files_changed": am.get("files_changed"),
        "origin": "fresh sub-agent given only the property text and its own scratch worktree",
        "confirmed_by_me": {
            "how": "scratch worktree of /repo HEAD (with the built kernel copied in): demo on clean tree, git apply patch.diff, demo again, full baseline suite via /root/.vp/BASELINE.json cmd; worktree removed afterwards",
            "demo_exit_clean_tree": g("demo_clean_exit"), "demo_exit_with_patch": g("demo_patched_exit"), "patch_applies": g("patch_applies"),
            "baseline_exit_with_patch": g("baseline_exit"),
            "baseline_summary": (re.search(r"passed now:.*", conf) or [None])[0] if re.search(r"passed now:.*", conf) else None,
        },
        "checks_run": {k: {c: {"exit": r["exit"], "signatures": r["signatures"][:6]} for c, r in v.items()} for k, v in res.items()},
        "caught_by_target_check_quick": bool(q.get("exit") == 1),
        "commands": ["./tools_seeded.py seeded/%s --checks %s   (scratch copy via VERIF_REPO)" % (name, tgt), "./tools_seeded.py seeded/%s --checks %s --in-repo   (git -C /repo apply ...; check; git -C /repo checkout -- .)" % (name, tgt)],
    }
    json.dump(meta, open(os.path.join(d, "meta.json"), "w"), indent=1)
    rows.append((name, meta["title"], meta["caught_by_target_check_quick"], sorted(set(s for v in res.values() for c, r in v.items() if r["exit"] == 1 for s in [c]))))
for r in rows:
    print("%-8s caught=%s by=%s  %s" % (r[0], r[2], ",".join(r[3]), (r[1] or "")[:90]))
