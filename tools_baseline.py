#!/usr/bin/env python3
"""Run the repository's pinned baseline (guard off: there are no hooks) and compare with BASELINE.json."""
import json, subprocess, sys, tempfile, os
import xml.etree.ElementTree as ET
b = json.load(open("/root/.vp/BASELINE.json"))
fd, path = tempfile.mkstemp(suffix=".xml", dir="/dev/shm"); os.close(fd)
cmd = b["cmd"].replace("<file>", path)
r = subprocess.run(cmd, shell=True, capture_output=True, text=True)
passed = set()
for tc in ET.parse(path).getroot().iter("testcase"):
    if not list(tc):
        passed.add("%s::%s" % (tc.get("classname"), tc.get("name")))
os.unlink(path)
missing = [t for t in b["stable_pass"] if t not in passed]
print("passed %d ; baseline %d ; baseline tests not passing now: %d" % (len(passed), len(b["stable_pass"]), len(missing)))
for m in missing: print("  MISSING", m)
sys.exit(1 if missing else 0)
