"""RNG seam: a numpy Generator subclass that records every draw (and can fail at the k-th one).

Verified on the real code: TheJoker accepts the subclass (isinstance check), the Cython kernel's
`rng.multivariate_normal(...)` dispatches to the override, and outputs are bit-identical to a plain
Generator over the same PCG64.
"""
import numpy as np


class RngFault(Exception):
    pass


class Record:
    """Shared by a parent RecordingGenerator and the child generators wrapped at the pool seam."""

    def __init__(self, log=None):
        self.draws = []  # dicts: {gen, method, ...}
        self.log = log
        self.fail_at = None  # (k, exception) -> raise at k-th draw (1-based, counted over all gens)
        self.n = 0
        self.fired = 0

    def note(self, gen_label, method, info, result):
        self.n += 1
        rec = {"gen": gen_label, "method": method, "n": self.n}
        rec.update(info)
        rec["result"] = result
        self.draws.append(rec)
        if self.log is not None:
            self.log.add("rng-draw", "%s.%s" % (gen_label, method), info, result)

    def maybe_fail(self):
        if self.fail_at is not None and self.n + 1 == self.fail_at[0]:
            self.n += 1
            self.fired += 1
            exc = self.fail_at[1]
            if self.log is not None:
                self.log.add("fault-fired", "rng", {"k": self.fail_at[0]}, repr(exc))
            raise exc


class RecordingGenerator(np.random.Generator):
    def __new__(cls, bit_generator, *a, **k):
        return super().__new__(cls, bit_generator)

    def __init__(self, bit_generator, record=None, label="parent"):
        super().__init__(bit_generator)
        self._rec = record if record is not None else Record()
        self._label = label

    @property
    def record(self):
        return self._rec

    # -- overridden draw methods ---------------------------------------------------------
    def uniform(self, low=0.0, high=1.0, size=None):
        self._rec.maybe_fail()
        r = super().uniform(low, high, size)
        self._rec.note(self._label, "uniform", {"low": low, "high": high, "size": _sz(size)}, np.array(r))
        return r

    def random(self, size=None, dtype=np.float64, out=None):
        self._rec.maybe_fail()
        r = super().random(size, dtype, out)
        self._rec.note(self._label, "random", {"size": _sz(size)}, np.array(r))
        return r

    def choice(self, a, size=None, replace=True, p=None, axis=0, shuffle=True):
        self._rec.maybe_fail()
        r = super().choice(a, size, replace, p, axis, shuffle)
        self._rec.note(
            self._label,
            "choice",
            {"a": a if np.isscalar(a) else np.array(a), "size": _sz(size), "replace": bool(replace)},
            np.array(r),
        )
        return r

    def permutation(self, x, axis=0):
        self._rec.maybe_fail()
        r = super().permutation(x, axis)
        self._rec.note(self._label, "permutation", {"x": x if np.isscalar(x) else np.array(x)}, np.array(r))
        return r

    def shuffle(self, x, axis=0):
        self._rec.maybe_fail()
        super().shuffle(x, axis)
        self._rec.note(self._label, "shuffle", {}, np.array(x))

    def integers(self, low, high=None, size=None, dtype=np.int64, endpoint=False):
        self._rec.maybe_fail()
        r = super().integers(low, high, size, dtype, endpoint)
        self._rec.note(self._label, "integers", {"low": low, "high": high, "size": _sz(size)}, np.array(r))
        return r

    def normal(self, loc=0.0, scale=1.0, size=None):
        self._rec.maybe_fail()
        r = super().normal(loc, scale, size)
        self._rec.note(self._label, "normal", {"size": _sz(size)}, np.array(r))
        return r

    def standard_normal(self, size=None, dtype=np.float64, out=None):
        if getattr(self, "_nested", False):  # called by Generator.multivariate_normal itself
            return super().standard_normal(size, dtype, out)
        self._rec.maybe_fail()
        r = super().standard_normal(size, dtype, out)
        self._rec.note(self._label, "standard_normal", {"size": _sz(size)}, np.array(r))
        return r

    def multivariate_normal(self, mean, cov, size=None, check_valid="warn", tol=1e-8, *, method="svd"):
        self._rec.maybe_fail()
        mean_c = np.array(mean, dtype=float)
        cov_c = np.array(cov, dtype=float)
        self._nested = True
        try:
            r = super().multivariate_normal(mean, cov, size, check_valid, tol, method=method)
        finally:
            self._nested = False
        self._rec.note(
            self._label, "multivariate_normal", {"mean": mean_c, "cov": cov_c, "size": _sz(size)}, np.array(r)
        )
        return r


def _sz(size):
    if size is None:
        return None
    if np.isscalar(size):
        return int(size)
    return [int(s) for s in size]


def make(seed, record=None, label="parent"):
    """Parent generator for TheJoker, seeded exactly like np.random.default_rng(seed)."""
    ss = np.random.SeedSequence(seed)
    return RecordingGenerator(np.random.PCG64(ss), record=record, label=label)


def bitgen_fingerprint(bg):
    st = bg.state
    return (st["bit_generator"], int(st["state"]["state"]), int(st["state"]["inc"]), int(st["has_uint32"]), int(st["uinteger"]))


def clone(gen, record=None, label="parent"):
    """Rebuild a generator in the same state *including the SeedSequence spawn counter*."""
    bg = gen.bit_generator
    ss = bg._seed_seq
    ss2 = np.random.SeedSequence(
        entropy=ss.entropy, spawn_key=ss.spawn_key, pool_size=ss.pool_size, n_children_spawned=ss.n_children_spawned
    )
    bg2 = np.random.PCG64(ss2)
    bg2.state = bg.state
    return RecordingGenerator(bg2, record=record, label=label)


def spawn_count(gen):
    return gen.bit_generator._seed_seq.n_children_spawned
