"""The simulated deployment's inputs: priors (cached per process), data sets, prior-sample libraries.

Everything is built from plain JSON-able *specs* so that a replay file can carry the explicit
configuration.  Library rows and data are generated with numpy from a seeded PCG64 (never with
`prior.sample`, which costs seconds per call) and never from a generator thejoker can see.
"""
import math
import os

import numpy as np

from . import tape

_PRIOR_CACHE = {}

# --------------------------------------------------------------------------------------------
# priors: a small palette (pymc model construction + first pytensor eval is ~0.5-1.5 s each)

PRIOR_PALETTE = [
    # (poly_trend, n_offsets, k_prior, rv_unit, P unit, means)
    {"poly_trend": 1, "n_offsets": 0, "k_prior": "default", "rv_unit": "km/s", "P_unit": "d", "v0_mean": 0.0, "width": 1.0},
    {"poly_trend": 2, "n_offsets": 0, "k_prior": "default", "rv_unit": "km/s", "P_unit": "d", "v0_mean": 0.0, "width": 0.8, "sigma_K0": 300.0},
    {"poly_trend": 1, "n_offsets": 1, "k_prior": "default", "rv_unit": "km/s", "P_unit": "d", "v0_mean": 0.0, "width": 1.25, "P0_d": 100.0},
    {"poly_trend": 1, "n_offsets": 0, "k_prior": "normal", "rv_unit": "km/s", "P_unit": "d", "v0_mean": 3.5, "width": 0.6},
    {"poly_trend": 3, "n_offsets": 2, "k_prior": "default", "rv_unit": "m/s", "P_unit": "d", "v0_mean": 0.0, "width": 1.0},
    {"poly_trend": 2, "n_offsets": 0, "k_prior": "normal", "rv_unit": "m/s", "P_unit": "yr", "v0_mean": -120.0, "width": 1.5},
    {"poly_trend": 1, "n_offsets": 0, "k_prior": "default", "rv_unit": "m/s", "P_unit": "yr", "v0_mean": 0.0, "width": 0.7, "sigma_K0": 300.0, "P0_d": 20.0},
    {"poly_trend": 2, "n_offsets": 1, "k_prior": "default", "rv_unit": "km/s", "P_unit": "d", "v0_mean": 0.0, "width": 1.1},
]


def prior_key(spec):
    return tape.jdump(spec)


def get_prior(spec, fresh=False):
    """Cached per process; fresh=True builds a brand-new JokerPrior object (nothing any earlier call could have left
    on the prior object is shared with it) and does not touch the cache."""
    key = prior_key(spec)
    if key in _PRIOR_CACHE and not fresh:
        return _PRIOR_CACHE[key]
    import astropy.units as u
    import pymc as pm

    import thejoker as tj
    import thejoker.units as xu
    import logging

    logging.getLogger("thejoker").setLevel(logging.ERROR)

    vu = u.Unit(spec["rv_unit"])
    Pu = u.Unit(spec["P_unit"])
    scale = 1.0 if spec["rv_unit"] == "km/s" else 1000.0
    poly = spec["poly_trend"]
    with pm.Model():
        offs = [
            xu.with_unit(pm.Normal(f"dv0_{i+1}", 1.5 * (i + 1) * scale * spec.get("width", 1.0), 5.0 * scale * spec.get("width", 1.0)), vu)
            for i in range(spec["n_offsets"])
        ]
        pars = {}
        if spec["k_prior"] == "normal":
            pars["K"] = xu.with_unit(pm.Normal("K", 1.0 * scale, 20.0 * scale), vu)
        w = spec.get("width", 1.0)  # each palette entry has its own widths: a value cached from another prior shows
        sig = [100.0 * w * scale * vu, 0.1 * w * scale * vu / u.day, 1e-3 * w * scale * vu / u.day**2][:poly]
        if spec.get("v0_mean", 0.0) != 0.0:
            pars["v0"] = xu.with_unit(pm.Normal("v0", spec["v0_mean"], 100.0 * spec.get("width", 1.0) * scale), vu)
            if poly > 1:
                pars["v1"] = xu.with_unit(pm.Normal("v1", 0.01 * scale, 0.1 * scale), vu / u.day)
            if poly > 2:
                pars["v2"] = xu.with_unit(pm.Normal("v2", 0.0, 1e-3 * scale), vu / u.day**2)
        Pmin = (2.0 * u.day).to(Pu)
        Pmax = (1024.0 * u.day).to(Pu)
        prior = tj.JokerPrior.default(
            P_min=Pmin,
            P_max=Pmax,
            sigma_K0=spec.get("sigma_K0", 30.0) * scale * vu,  # 300 => the max_K cap of the K prior engages for short periods
            sigma_v=sig,
            poly_trend=poly,
            v0_offsets=offs or None,
            pars=pars or None,
            **({"P0": spec["P0_d"] * u.day} if spec.get("P0_d") else {}),  # reference period of the K-variance rule (default 1 yr)
        )
    if not fresh:
        _PRIOR_CACHE[key] = prior
    return prior


# --------------------------------------------------------------------------------------------
# Keplerian RV used only to *generate data* (workload steering: gives one library row a likelihood
# spike).  Nothing is asserted about it.


def _kepler_rv(t, t_ref, P, e, omega, M0, K, v0):
    M = 2 * np.pi * (t - t_ref) / P - M0
    E = M.copy()
    for _ in range(60):
        E = E - (E - e * np.sin(E) - M) / (1 - e * np.cos(E))
    f = 2 * np.arctan2(np.sqrt(1 + e) * np.sin(E / 2), np.sqrt(1 - e) * np.cos(E / 2))
    return v0 + K * (np.cos(omega + f) + e * np.cos(omega))


# --------------------------------------------------------------------------------------------
# libraries

LIB_UNIT_CHOICES = {
    "P": ["d", "d", "yr", "h"],
    "omega": ["rad", "rad", "deg"],
    "M0": ["rad", "rad", "deg"],
}


def gen_library_spec(rnd, prior_spec, n=None, allow_f4=True):
    n = n if n is not None else rnd.choice([1, 2, 3, 5, 8, 13, 21, 34, 55, 89, 144, 233, rnd.randint(1, 300)])
    units = {k: rnd.choice(v) for k, v in LIB_UNIT_CHOICES.items()}
    units["s"] = rnd.choice([prior_spec["rv_unit"], prior_spec["rv_unit"], "km/s", "m/s"])
    dtype = "f8"
    if allow_f4 and rnd.random() < 0.12:
        # f4 libraries only in internal units (DESIGN 2.7: no conversion => exact on every path)
        dtype = "f4"
        units = {"P": "d", "omega": "rad", "M0": "rad", "s": prior_spec["rv_unit"]}
    dups = []
    if n >= 4 and rnd.random() < 0.5:
        for _ in range(rnd.randint(1, 2)):
            i = rnd.randrange(n)
            j = rnd.randrange(n)
            if i != j:
                dups.append([i, j])
    return {
        "n": n,
        "units": units,
        "dtype": dtype,
        "duplicates": dups,
        "gen_seed": rnd.getrandbits(48),
        # float32 libraries keep s = 0: a float32 column converted to the data's RV unit is only float32-exact and
        # the two conversion routes (pack vs read_batch) may legitimately differ there (DESIGN 2.7)
        "jitter": "zero" if dtype == "f4" else rnd.choice(["zero", "zero", "sampled"]),
        "with_ln_prior": True,
        # a library may carry its own reference epoch (prior.sample(..., t_ref=...), or samples of an earlier run)
        "t_ref": rnd.choice([None, None, None, None, 55111.5, 58000.25]),
        # the library object may be a slice of a longer one (negative bounds too), taken with JokerSamples.__getitem__
        "view": None if rnd.random() < 0.85 else {"front": rnd.randint(0, 3), "back": rnd.randint(0, 3), "form": rnd.choice(["neg-both", "neg-start", "neg-stop", "pos"])},
        "ln_prior_dtype": "f8" if (dtype == "f4" and rnd.random() < 0.5) else None,
    }


class Library:
    """A prior-sample library: a hand-built JokerSamples plus the raw arrays that generated it.

    Row identity tags: ln_prior[i] = -(i + 0.25)  (unique, exactly representable in f4 and f8 for
    i < 2**20), so any returned row names the library row it claims to be.
    """

    def __init__(self, spec):
        import astropy.units as u

        import thejoker as tj

        self.spec = spec
        n = spec["n"]
        g = tape.np_sub(spec["gen_seed"], "library")
        P_d = np.exp(g.uniform(np.log(2.0), np.log(1024.0), n))
        e = g.uniform(0.0, 0.9, n)
        omega = g.uniform(0.0, 2 * np.pi, n)
        M0 = g.uniform(0.0, 2 * np.pi, n)
        if spec.get("jitter") == "sampled":
            s_kms = np.exp(g.uniform(np.log(0.01), np.log(5.0), n))
        else:
            s_kms = np.zeros(n)
        cols = {"P": P_d, "e": e, "omega": omega, "M0": M0, "s": s_kms}
        for i, j in spec.get("duplicates", []):
            if i < n and j < n:
                for k in cols:
                    cols[k][j] = cols[k][i]
        for ov in spec.get("overrides", []):  # [row, col, value-in-base-units or "nan"/"inf"]
            r, c, v = ov
            if r < n:
                cols[c][r] = float(v)
        un = spec["units"]
        dt = np.float32 if spec.get("dtype") == "f4" else np.float64
        q = {}
        q["P"] = (cols["P"] * u.day).to(u.Unit(un["P"]))
        q["e"] = cols["e"] * u.one
        q["omega"] = (cols["omega"] * u.rad).to(u.Unit(un["omega"]))
        q["M0"] = (cols["M0"] * u.rad).to(u.Unit(un["M0"]))
        q["s"] = (cols["s"] * u.km / u.s).to(u.Unit(un["s"]))
        lt = spec.get("t_ref")
        if lt is not None:
            from astropy.time import Time

            lt = Time(float(lt), format="mjd", scale="tcb")
        # Row identity tags (ln_prior): unique per row.  -(i + 0.25) is exactly representable in f4 and f8; a
        # float32 library whose ln_prior is float64 (what prior.sample(dtype=float32, return_logprobs=True) makes)
        # gets -(i + 1/3), which float32 cannot hold: a silent downcast of that column shows.
        lp_dt = np.float64 if spec.get("ln_prior_dtype") == "f8" else dt
        # tag_shift: a second library of the same size carries OTHER tags (-(i + 0.75)), so a stale ln_prior column of
        # the library that was in the same file before shows as a wrong tag
        full_tags = -(np.arange(n) + (1.0 / 3.0 if (lp_dt is np.float64 and dt is np.float32) else 0.25) + float(spec.get("tag_shift", 0.0)))
        order = spec.get("column_order") or ["P", "e", "omega", "M0", "s"]
        vals = {k: q[k].value.astype(dt) for k in order}
        tag_vals = full_tags.astype(lp_dt)
        # Optional VIEW: the library handed to the sampler is a slice (negative bounds included) of a LONGER
        # JokerSamples (front/back padding rows), taken through the system's own __getitem__.  The n rows of the
        # spec are what the slice must deliver; the reference below never goes through __getitem__.
        view = spec.get("view")
        front = back = 0
        if view:
            front, back = int(view.get("front", 0)), int(view.get("back", 0))
        g2 = tape.np_sub(spec["gen_seed"], "pad")

        def padded(k, v):
            if not (front or back):
                return v.copy()
            scale = np.nanmax(np.abs(v[np.isfinite(v)])) if np.any(np.isfinite(v)) else 1.0
            f = (g2.uniform(0.1, 0.9, front) * (scale if scale > 0 else 1.0)).astype(v.dtype)
            bk = (g2.uniform(0.1, 0.9, back) * (scale if scale > 0 else 1.0)).astype(v.dtype)
            return np.concatenate([f, v, bk])

        samples = tj.JokerSamples(t_ref=lt)
        for k in order:
            samples[k] = u.Quantity(padded(k, vals[k]), q[k].unit)
        if spec.get("with_ln_prior", True):
            pad_f = (-(1.0e6 + np.arange(front) + 0.25)).astype(lp_dt)
            pad_b = (-(2.0e6 + np.arange(back) + 0.25)).astype(lp_dt)
            samples["ln_prior"] = np.concatenate([pad_f, tag_vals, pad_b]) if (front or back) else tag_vals.copy()
        if front or back:
            n_full = front + n + back
            form = view.get("form", "neg-both")
            lo, hi = front, front + n
            if form == "neg-both" and back > 0:
                sl = slice(lo - n_full, hi - n_full)
            elif form == "neg-start":
                sl = slice(lo - n_full, hi if back > 0 else None)
            elif form == "neg-stop" and back > 0:
                sl = slice(lo, hi - n_full)
            else:
                sl = slice(lo, hi)
            samples = samples[sl]
        self.base = cols  # base units: d, one, rad, rad, km/s
        self.samples = samples
        self.n = n
        self.tags = np.asarray(tag_vals, dtype=np.float64)
        # PRIVATE reference copies (never handed to thejoker): what the user's table holds
        self.ref = {k: u.Quantity(vals[k].copy(), q[k].unit) for k in order}
        self.stored = {k: np.array(self.ref[k].value) for k in ["P", "e", "omega", "M0", "s"]}
        self.stored_units = {k: self.ref[k].unit for k in ["P", "e", "omega", "M0", "s"]}
        self.path = None

    def modified_in_place(self):
        """Columns of the live object that no longer hold what the user put there (a sampler must not edit its input)."""
        bad = []
        try:
            if len(self.samples) != self.n:
                return ["<length %d -> %d>" % (self.n, len(self.samples))]
            for k, ref in self.ref.items():
                col = self.samples.tbl[k]
                if str(col.unit) != str(ref.unit) or np.asarray(col.value).tobytes() != np.asarray(ref.value).tobytes():
                    bad.append(k)
        except Exception as e:  # noqa: BLE001
            bad.append("<%r>" % (e,))
        return bad

    def write(self, path):
        self.samples.write(path, overwrite=True)
        self.path = path
        return path

    def row_packed(self, helper, rows):
        """Rows converted the way the in-memory path does (JokerSamples.pack)."""
        sub = self.samples[np.asarray(rows)] if not isinstance(rows, slice) else self.samples[rows]
        arr, _ = sub.pack(units=helper.internal_units, names=helper.packed_order)
        return np.ascontiguousarray(arr, dtype=np.float64)

    def nonlinear_in(self, units, rows=None):
        """Library nonlinear columns converted to `units` (dict name->Unit) with astropy, f8."""
        out = {}
        for k in ["P", "e", "omega", "M0", "s"]:
            col = self.ref[k]  # private copy, not the live object
            v = col.to_value(units[k]) if k in units else col.value
            v = np.asarray(v, dtype=np.float64)
            out[k] = v if rows is None else v[np.asarray(rows)]
        return out


# --------------------------------------------------------------------------------------------
# data sets


def gen_data_spec(rnd, prior_spec, profile=None):
    profile = profile or rnd.choice(["flat", "weak", "weak", "informative", "spike"])
    n_src = prior_spec["n_offsets"] + 1
    n_epochs = rnd.choice([1, 2, 3, 4, 5, 6, 8, 12]) if n_src == 1 else rnd.choice([1, 2, 3, 4])
    if profile in ("spike", "informative"):
        n_epochs = max(n_epochs, 4 if n_src == 1 else 2)
    return {
        "profile": profile,
        "n_epochs": n_epochs,  # per source
        "n_sources": n_src,
        "container": "single" if n_src == 1 else rnd.choice(["list", "dict"]),
        "baseline": rnd.choice([10.0, 100.0, 300.0, 1500.0]),
        "t_start": rnd.choice([55000.0, 58123.25, 60000.5]),
        # the data's RV unit need not be the prior's: the helper converts the prior to the data's unit
        "rv_unit": prior_spec["rv_unit"] if rnd.random() < 0.7 else ("m/s" if prior_spec["rv_unit"] == "km/s" else "km/s"),
        "gen_seed": rnd.getrandbits(48),
        "orbit_from": None,  # [library index, row] for spike/informative, filled by the caller
        # reference epoch of a single RVData: default (min t), disabled (t_ref=False), or an explicit Time
        # (explicit-<scale>: the same kind of epoch handed over in another time scale -- astropy's default is UTC)
        # surveys of one multi-source data set need not share a velocity unit (everything is expressed in the first one's)
        "mixed_units": bool(n_src > 1 and rnd.random() < 0.2),
        "t_ref_mode": "min" if n_src > 1 else rnd.choice(["min", "min", "min", "min", "false", "explicit", "explicit-utc", "explicit-tdb"]),
    }


def build_data(spec, libraries=None, canonical=False):
    """canonical=True: the REFERENCE's copy of the same data -- an explicit reference epoch given in another time
    scale is replaced by the same instant as a TCB Time (converted here, by astropy alone)."""
    import astropy.units as u
    from astropy.time import Time

    import thejoker as tj

    g = tape.np_sub(spec["gen_seed"], "data")
    n_src = spec["n_sources"]
    ne = spec["n_epochs"]
    vu = u.Unit(spec["rv_unit"])
    scale = 1.0 if spec["rv_unit"] == "km/s" else 1000.0
    profile = spec["profile"]
    ts = [np.sort(spec["t_start"] + g.uniform(0, spec["baseline"], ne)) for _ in range(n_src)]
    t_ref = min(t.min() for t in ts)
    mode = spec.get("t_ref_mode", "min")
    kw_tref = {}
    if n_src == 1 and mode == "false":
        kw_tref = {"t_ref": False}
        t_ref = 0.0
    elif n_src == 1 and mode == "explicit":
        t_ref = float(np.floor(t_ref)) - 3.5
        kw_tref = {"t_ref": Time(t_ref, format="mjd", scale="tcb")}
    elif n_src == 1 and mode.startswith("explicit-"):
        t_ref = float(np.floor(t_ref)) - 3.5
        user = getattr(Time(t_ref, format="mjd", scale="tcb"), mode.split("-")[1])  # same instant, other scale
        v = float(user.tcb.mjd)
        canon = Time(v, format="mjd", scale="tcb")
        if float(canon.mjd) != v or float(canon.tcb.mjd) != v:
            user = canon  # (never seen) the instant does not round-trip bit-exactly: keep one representation only
        t_ref = v
        kw_tref = {"t_ref": canon if canonical else user}
    amp = 10.0  # km/s
    if profile == "flat":
        err = 1.0e4
    elif profile == "weak":
        err = 8.0
    elif profile == "informative":
        err = 0.5
    else:
        err = 0.05
    orbit = None
    if spec.get("orbit_from") and libraries:
        li, row = spec["orbit_from"]
        lib = libraries[li]
        if row < lib.n:
            b = lib.base
            orbit = (b["P"][row], b["e"][row], b["omega"][row], b["M0"][row])
    out = []
    for k in range(n_src):
        t = ts[k]
        if orbit is not None and np.all(np.isfinite(orbit)):
            rv = _kepler_rv(t, t_ref, orbit[0], orbit[1], orbit[2], orbit[3], amp, 2.0) + 1.5 * k
        else:
            rv = g.normal(0.0, amp, ne)
        rv = rv + g.normal(0.0, min(err, 2 * amp), ne) * (0.0 if profile == "spike" else 1.0)
        errs = np.full(ne, err) * (1 + 0.3 * g.uniform(size=ne))
        vu_k, scale_k = vu, scale
        if spec.get("mixed_units") and n_src > 1 and k % 2 == 1:
            vu_k, scale_k = (u.Unit("m/s"), 1000.0) if spec["rv_unit"] == "km/s" else (u.Unit("km/s"), 1.0)
        rvq, errq = rv * scale_k * vu_k, errs * scale_k * vu_k
        if canonical:
            rvq, errq = rvq.to(vu), errq.to(vu)  # the reference's copy: every survey already in the first one's unit
        out.append(tj.RVData(t=Time(t, format="mjd", scale="tcb"), rv=rvq, rv_err=errq, **kw_tref))
    if spec["container"] == "single":
        return out[0]
    if spec["container"] == "list":
        return out
    return {("s%d" % i): d for i, d in enumerate(out)}


def needs_canonical(spec):
    return str(spec.get("t_ref_mode", "")).startswith("explicit-") or bool(spec.get("mixed_units") and spec.get("n_sources", 1) > 1)


def snapshot_data(data):
    """Plain copies of every RVData inside a data argument (single / list / dict)."""
    if hasattr(data, "rv"):
        items = [("", data)]
    elif hasattr(data, "items"):
        items = [(str(k), v) for k, v in data.items()]
    else:
        items = [(str(i), v) for i, v in enumerate(data)]
    out = []
    for k, d in items:
        out.append([k, np.array(d._t_bmjd, dtype=float), np.array(d.rv.value, dtype=float), str(d.rv.unit), np.array(d.rv_err.value, dtype=float), str(d.rv_err.unit),
                    None if d.t_ref is None else float(d._t_ref_bmjd)])
    return out


class World:
    """Everything one run needs, built from config (dict)."""

    def __init__(self, config, workdir):
        self.config = config
        self.workdir = workdir
        self.userdir = os.path.join(workdir, "user")
        self.tmpdir = os.path.join(workdir, "tmp")
        os.makedirs(self.userdir, exist_ok=True)
        os.makedirs(self.tmpdir, exist_ok=True)
        self.prior = get_prior(config["prior"])
        self.libraries = [Library(s) for s in config["libraries"]]
        self.datasets = [build_data(s, self.libraries) for s in config["datasets"]]
        # what the references (L*, A*) are computed from; the same objects unless an epoch was given in a non-TCB scale
        self.ref_datasets = [build_data(s, self.libraries, canonical=True) if needs_canonical(s) else d
                             for s, d in zip(config["datasets"], self.datasets)]
        self.data_ref = [snapshot_data(d) for d in self.datasets]  # private copies: a call must not edit the user's data

    def data_modified_in_place(self):
        bad = []
        for j, (d, ref) in enumerate(zip(self.datasets, self.data_ref)):
            try:
                now = snapshot_data(d)
            except Exception as e:  # noqa: BLE001
                bad.append((j, repr(e)))
                continue
            if tape.digest_obj(now) != tape.digest_obj(ref):
                bad.append((j, "t / rv / rv_err / t_ref differ from what the user built"))
        return bad

    def library_file(self, i):
        lib = self.libraries[i]
        if lib.path is None:
            ext = self.config.get("lib_ext", ".hdf5")
            lib.write(os.path.join(self.userdir, "lib%d%s" % (i, ext)))
        return lib.path
