"""Deterministic simulation + fault injection machinery for adrn/thejoker (see /verif/DESIGN.md)."""
