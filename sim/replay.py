"""Replay a recorded (usually minimised) program literally: no PRNG, explicit schedule and faults.

Exit 1 (and print the violation) iff the same violation signature AND the same event-log digest are
reproduced; exit 2 if it cannot be reproduced; exit 0 is never produced for a file that records a
violation unless --expect-clean is given (used after a fix to show the trace is now clean).
"""
import json
import sys
import warnings


def main():
    warnings.filterwarnings("ignore")
    import logging

    for n in ("pymc", "pytensor"):
        logging.getLogger(n).setLevel(logging.ERROR)
    path = sys.argv[1]
    expect_clean = "--expect-clean" in sys.argv
    with open(path) as f:
        program = json.load(f)
    from sim import runner

    check = runner.load_check(program["property"])
    res = runner.run_program(program, check)
    if res.get("harness_error"):
        print("HARNESS-ERROR replay failed to execute:\n" + res["harness_error"])
        sys.exit(2)
    want = program.get("violation") or {}
    sigs = [v["signature"] for v in res.get("violations", [])]
    print("replay: property=%s seed=%s ops=%d digest=%s" % (program["property"], program.get("seed"), len(program.get("ops", [])), res.get("digest")))
    for v in res.get("violations", []):
        print("  violation: %s :: %s" % (v["signature"], v["detail"][:400]))
    if want.get("signature") in sigs:
        same_digest = want.get("event_digest") in (None, res.get("digest"))
        print("REPRODUCED signature=%s digest_match=%s" % (want["signature"], same_digest))
        sys.exit(1 if same_digest else 2)
    if expect_clean and not sigs:
        print("CLEAN")
        sys.exit(0)
    print("NOT-REPRODUCED wanted=%s got=%s" % (want.get("signature"), sigs))
    sys.exit(2 if want else (1 if sigs else 0))


if __name__ == "__main__":
    main()
