"""Replay a recorded (usually minimised) program literally: no PRNG, explicit schedule and faults.

Exit 1 (and print the violation) iff the same violation signature AND the same event-log digest are
reproduced; exit 2 if it cannot be reproduced; exit 0 is never produced for a file that records a
violation unless --expect-clean is given (used after a fix to show the trace is now clean).
"""
import json
import sys
import warnings


def main():
    warnings.filterwarnings("ignore")
    import logging

    for n in ("pymc", "pytensor"):
        logging.getLogger(n).setLevel(logging.ERROR)
    if len(sys.argv) > 1 and sys.argv[1] == "--make-cross":
        return make_cross(*sys.argv[2:7])
    path = sys.argv[1]
    expect_clean = "--expect-clean" in sys.argv
    with open(path) as f:
        program = json.load(f)
    if "--emit-out" in sys.argv:
        from sim import runner

        check = runner.load_check(program["property"])
        res = runner.run_program(program, check)
        print("OUT-DIGESTS " + json.dumps({"out": res.get("op_out_digests"), "plan": res.get("plan_digest"), "err": res.get("harness_error")}))
        sys.exit(0)
    if program.get("cross"):
        return replay_cross(path, program)
    from sim import runner, tape

    check = runner.load_check(program["property"])
    # Prelude: some defects live in process-global state (module-level caches) and need the runs that
    # the worker process executed BEFORE the failing one.  The prelude is an explicit list of seeds
    # whose programs are regenerated and executed first, in order, in this fresh interpreter.
    prelude = program.get("prelude")
    cli_prelude = None
    for i, a in enumerate(sys.argv):
        if a == "--prelude" and i + 1 < len(sys.argv):
            cli_prelude = {"seeds": [int(x) for x in sys.argv[i + 1].split(",") if x], "tier": "quick"}
        if a == "--tier" and i + 1 < len(sys.argv) and cli_prelude is not None:
            cli_prelude["tier"] = sys.argv[i + 1]
    if cli_prelude is not None:
        prelude = cli_prelude
    if prelude:
        for sd in prelude["seeds"]:
            runner.run_program(check.generate(sd, prelude.get("tier", "quick")), check)
        print("prelude: executed %d earlier runs of the same worker process first" % len(prelude["seeds"]))
    res = runner.run_program(program, check)
    if cli_prelude is not None and "--write" in sys.argv:
        want0 = (program.get("violation") or {}).get("signature")
        got = [v for v in res.get("violations", []) if v["signature"] == want0]
        if got:
            program["prelude"] = cli_prelude
            program["violation"]["event_digest"] = res.get("digest")
            program["violation"]["detail"] = got[0]["detail"]
            with open(path, "w") as f:
                f.write(tape.jdump(program))
            print("PRELUDE-WRITTEN %d seeds" % len(cli_prelude["seeds"]))
            sys.exit(1)
        print("PRELUDE-NOT-REPRODUCED")
        sys.exit(2)
    if res.get("harness_error"):
        print("HARNESS-ERROR replay failed to execute:\n" + res["harness_error"])
        sys.exit(2)
    want = program.get("violation") or {}
    sigs = [v["signature"] for v in res.get("violations", [])]
    print("replay: property=%s seed=%s ops=%d digest=%s" % (program["property"], program.get("seed"), len(program.get("ops", [])), res.get("digest")))
    for v in res.get("violations", []):
        print("  violation: %s :: %s" % (v["signature"], v["detail"][:400]))
    if want.get("signature") in sigs:
        same_digest = want.get("event_digest") in (None, res.get("digest"))
        print("REPRODUCED signature=%s digest_match=%s" % (want["signature"], same_digest))
        sys.exit(1 if same_digest else 3)  # 3: same violation, but the event log differs from the recorded one
    if expect_clean and not sigs:
        print("CLEAN")
        sys.exit(0)
    print("NOT-REPRODUCED wanted=%s got=%s" % (want.get("signature"), sigs))
    sys.exit(2 if want else (1 if sigs else 0))


def _fresh_out(path):
    """Per-op output digests of the program executed ALONE in a fresh interpreter."""
    import os
    import subprocess

    env = dict(os.environ)
    env["PYTHONHASHSEED"] = "4242"
    r = subprocess.run([sys.executable, "-m", "sim.replay", path, "--emit-out"], capture_output=True, text=True, env=env, timeout=3600)
    for line in r.stdout.splitlines():
        if line.startswith("OUT-DIGESTS "):
            return json.loads(line[len("OUT-DIGESTS "):])
    raise RuntimeError("fresh interpreter gave no digests: " + (r.stdout + r.stderr)[-800:])


def _cross_compare(path, program):
    from sim import runner

    check = runner.load_check(program["property"])
    fresh = _fresh_out(path)
    pre = program["cross"]["prelude"]
    for sd in pre["seeds"]:
        runner.run_program(check.generate(sd, pre.get("tier", "quick")), check)
    res = runner.run_program(program, check)
    a, b = fresh.get("out") or [], res.get("op_out_digests") or []
    if fresh.get("plan") != res.get("plan_digest"):
        return None, "plans differ (harness nondeterminism?)", res
    for i, (x, y) in enumerate(zip(a, b)):
        if x != y:
            return i, "op #%d (%s) gives different output after %d earlier run(s) in the same process than alone in a fresh interpreter" % (i, program["ops"][i].get("op"), len(pre["seeds"])), res
    return None, "outputs equal", res


def replay_cross(path, program):
    idx, why, res = _cross_compare(path, program)
    print("replay(cross-process): property=%s seed=%s prelude=%d" % (program["property"], program.get("seed"), len(program["cross"]["prelude"]["seeds"])))
    if idx is not None and idx == (program.get("violation") or {}).get("op_index", idx):
        print("  violation: %s :: %s" % (program["violation"]["signature"], why))
        print("REPRODUCED signature=%s digest_match=True" % program["violation"]["signature"])
        sys.exit(1)
    print("NOT-REPRODUCED (%s)" % why)
    sys.exit(2)


def make_cross(prop, seed, tier, prelude_seeds, out):
    """Build + verify a cross-process replay file: program of `seed`, preceded by `prelude_seeds`."""
    import warnings

    warnings.filterwarnings("ignore")
    from sim import runner, tape

    check = runner.load_check(prop)
    program = check.generate(int(seed), tier)
    program["cross"] = {"prelude": {"seeds": [int(x) for x in prelude_seeds.split(",") if x], "tier": tier}}
    program["violation"] = {"oracle": prop + ".cross-process", "signature": "%s:cross-process:outputs-depend-on-process-history" % prop, "detail": "", "event_digest": None}
    with open(out, "w") as f:
        f.write(tape.jdump(program))
    idx, why, res = _cross_compare(out, program)
    if idx is None:
        print("CROSS-NOT-REPRODUCED " + why)
        sys.exit(2)
    program["violation"]["detail"] = why
    program["violation"]["op_index"] = idx
    with open(out, "w") as f:
        f.write(tape.jdump(program))
    print("CROSS-WRITTEN " + why)
    sys.exit(1)


if __name__ == "__main__":
    main()
