"""Replay a recorded (usually minimised) program literally: no PRNG, explicit schedule and faults.

Exit 1 (and print the violation) iff the same violation signature AND the same event-log digest are
reproduced; exit 2 if it cannot be reproduced; exit 0 is never produced for a file that records a
violation unless --expect-clean is given (used after a fix to show the trace is now clean).
"""
import json
import sys
import warnings


def main():
    warnings.filterwarnings("ignore")
    import logging

    for n in ("pymc", "pytensor"):
        logging.getLogger(n).setLevel(logging.ERROR)
    path = sys.argv[1]
    expect_clean = "--expect-clean" in sys.argv
    with open(path) as f:
        program = json.load(f)
    from sim import runner, tape

    check = runner.load_check(program["property"])
    # Prelude: some defects live in process-global state (module-level caches) and need the runs that
    # the worker process executed BEFORE the failing one.  The prelude is an explicit list of seeds
    # whose programs are regenerated and executed first, in order, in this fresh interpreter.
    prelude = program.get("prelude")
    cli_prelude = None
    for i, a in enumerate(sys.argv):
        if a == "--prelude" and i + 1 < len(sys.argv):
            cli_prelude = {"seeds": [int(x) for x in sys.argv[i + 1].split(",") if x], "tier": "quick"}
        if a == "--tier" and i + 1 < len(sys.argv) and cli_prelude is not None:
            cli_prelude["tier"] = sys.argv[i + 1]
    if cli_prelude is not None:
        prelude = cli_prelude
    if prelude:
        for sd in prelude["seeds"]:
            runner.run_program(check.generate(sd, prelude.get("tier", "quick")), check)
        print("prelude: executed %d earlier runs of the same worker process first" % len(prelude["seeds"]))
    res = runner.run_program(program, check)
    if cli_prelude is not None and "--write" in sys.argv:
        want0 = (program.get("violation") or {}).get("signature")
        got = [v for v in res.get("violations", []) if v["signature"] == want0]
        if got:
            program["prelude"] = cli_prelude
            program["violation"]["event_digest"] = res.get("digest")
            program["violation"]["detail"] = got[0]["detail"]
            with open(path, "w") as f:
                f.write(tape.jdump(program))
            print("PRELUDE-WRITTEN %d seeds" % len(cli_prelude["seeds"]))
            sys.exit(1)
        print("PRELUDE-NOT-REPRODUCED")
        sys.exit(2)
    if res.get("harness_error"):
        print("HARNESS-ERROR replay failed to execute:\n" + res["harness_error"])
        sys.exit(2)
    want = program.get("violation") or {}
    sigs = [v["signature"] for v in res.get("violations", [])]
    print("replay: property=%s seed=%s ops=%d digest=%s" % (program["property"], program.get("seed"), len(program.get("ops", [])), res.get("digest")))
    for v in res.get("violations", []):
        print("  violation: %s :: %s" % (v["signature"], v["detail"][:400]))
    if want.get("signature") in sigs:
        same_digest = want.get("event_digest") in (None, res.get("digest"))
        print("REPRODUCED signature=%s digest_match=%s" % (want["signature"], same_digest))
        sys.exit(1 if same_digest else 2)
    if expect_clean and not sigs:
        print("CLEAN")
        sys.exit(0)
    print("NOT-REPRODUCED wanted=%s got=%s" % (want.get("signature"), sigs))
    sys.exit(2 if want else (1 if sigs else 0))


if __name__ == "__main__":
    main()
