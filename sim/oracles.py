"""Oracles shared by several properties (DESIGN 2.7)."""
import math

import numpy as np

NONLIN = ["P", "e", "omega", "M0", "s"]


class Violation(dict):
    def __init__(self, prop, oracle, signature, detail, **extra):
        super().__init__(property=prop, oracle=oracle, signature=signature, detail=str(detail)[:1200], **extra)


# -------------------------------------------------------------------------------------------
# comparison helpers


def same_bits(a, b):
    a = np.asarray(a)
    b = np.asarray(b)
    if a.shape != b.shape:
        return False
    if a.dtype != b.dtype:
        return False
    return a.tobytes() == b.tobytes()


def same_values(a, b):
    """Equal as float64 values, NaN == NaN by position, +-inf by position (dtype may differ)."""
    a = np.asarray(a, dtype=np.float64)
    b = np.asarray(b, dtype=np.float64)
    if a.shape != b.shape:
        return False
    return bool(np.array_equal(a, b, equal_nan=True))


def first_diff(a, b):
    a = np.asarray(a, dtype=np.float64)
    b = np.asarray(b, dtype=np.float64)
    if a.shape != b.shape:
        return "shape %s vs %s" % (a.shape, b.shape)
    bad = ~((a == b) | (np.isnan(a) & np.isnan(b)))
    idx = np.argwhere(bad)
    if len(idx) == 0:
        return "none"
    i = tuple(idx[0])
    return "first at %s: %r vs %r (%d differ)" % (i, a[i], b[i], len(idx))


def close_ll(a, b, rtol=1e-8):
    """Tolerance rule between two *different conversions* of the same stored numbers."""
    a = np.asarray(a, dtype=np.float64)
    b = np.asarray(b, dtype=np.float64)
    if a.shape != b.shape:
        return False
    fin = np.isfinite(a) & np.isfinite(b)
    if not np.array_equal(np.isnan(a), np.isnan(b)):
        return False
    inf_a = np.isinf(a)
    if not np.array_equal(inf_a, np.isinf(b)) or not np.array_equal(a[inf_a], b[inf_a]):
        return False
    return bool(np.all(np.abs(a[fin] - b[fin]) <= rtol * (1 + np.abs(a[fin]))))


def close_ulp(a, b, ulps=8, rel=None):
    a = np.asarray(a, dtype=np.float64)
    b = np.asarray(b, dtype=np.float64)
    if a.shape != b.shape:
        return False
    if not np.array_equal(np.isnan(a), np.isnan(b)):
        return False
    m = ~np.isnan(a)
    a = a[m]
    b = b[m]
    inf = np.isinf(a) | np.isinf(b)
    if not np.array_equal(a[inf], b[inf]):
        return False
    a = a[~inf]
    b = b[~inf]
    tol = (rel if rel is not None else ulps * np.finfo(np.float64).eps) * np.maximum(np.abs(a), np.abs(b))
    return bool(np.all(np.abs(a - b) <= tol))


# -------------------------------------------------------------------------------------------
# L*: row-at-a-time reference of the marginal ln-likelihood (the system's own kernel, fresh helper
# per row, in-memory packing).  Says nothing about the kernel's arithmetic (C01 is not claimed).


class LStar:
    def __init__(self, world):
        self.world = world
        self.cache = {}
        self.evals = 0
        # likelihood-profile stub (sim/llproxy.py): the override is by VALUE, not by index -- every row of
        # every library that holds the nonlinear values of a designated row is forced too
        ov = (world.config.get("ll_override") or {})
        keys = []
        for k, spec in ov.items():
            b = world.libraries[int(k)].base
            vals = np.stack([b["P"], b["e"], b["omega"], b["M0"]], axis=1)
            keys += [vals[int(r)] for r in spec["rows"]]
        self.forced = {}
        if keys:
            keys = np.array(keys)
            for li, lib in enumerate(world.libraries):
                b = lib.base
                vals = np.stack([b["P"], b["e"], b["omega"], b["M0"]], axis=1)
                m = (vals[:, None, :] == keys[None, :, :]).all(axis=2).any(axis=1)
                self.forced[li] = set(int(x) for x in np.nonzero(m)[0])

    def helper(self, data_idx):
        import thejoker as tj

        j = tj.TheJoker(self.world.prior)
        return j._make_joker_helper(self.world.ref_datasets[data_idx])

    def packed(self, data_idx, lib_idx):
        key = ("packed", data_idx, lib_idx)
        if key not in self.cache:
            lib = self.world.libraries[lib_idx]
            h = self.helper(data_idx)
            # same arithmetic as JokerSamples.pack (column.to_value(unit), stacked) but done here on the table
            # columns, so that state kept on the samples OBJECT by pack() cannot contaminate the reference
            cols = []
            for name in h.packed_order:
                col = lib.ref[name]  # the library's PRIVATE reference copy, not the live object
                unit = h.internal_units.get(name, col.unit)
                cols.append(np.asarray(col.to_value(unit)))
            arr = np.stack(cols, axis=1)
            self.cache[key] = np.ascontiguousarray(arr, dtype=np.float64)
        return self.cache[key]

    def get(self, data_idx, lib_idx, rows=None):
        """L*[rows] for (data, library); computed lazily per row, each with a FRESH helper."""
        key = ("ll", data_idx, lib_idx)
        lib = self.world.libraries[lib_idx]
        if key not in self.cache:
            self.cache[key] = np.full(lib.n, np.nan)
            self.cache[key + ("done",)] = np.zeros(lib.n, dtype=bool)
        ll = self.cache[key]
        done = self.cache[key + ("done",)]
        want = np.arange(lib.n) if rows is None else np.unique(np.asarray(rows, dtype=int))
        packed = self.packed(data_idx, lib_idx)
        todo = want[~done[want]]
        if len(todo) > 20000:
            # scale probe (libraries of ~10^6 rows): row-at-a-time is infeasible; the reference is evaluated in
            # chunks of 4096 rows, each by a FRESH helper (weaker: batch-independence itself is C05's business)
            for i in range(0, len(todo), 4096):
                ch = todo[i : i + 4096]
                h = self.helper(data_idx)
                ll[ch] = np.array(h.batch_marginal_ln_likelihood(np.ascontiguousarray(packed[ch])))
                done[ch] = True
                self.evals += len(ch)
            for r in self.forced.get(lib_idx, ()):
                ll[r] = -np.inf
        for r in want:
            if not done[r]:
                h = self.helper(data_idx)
                ll[r] = np.array(h.batch_marginal_ln_likelihood(np.ascontiguousarray(packed[r : r + 1])))[0]
                if r in self.forced.get(lib_idx, ()):
                    ll[r] = -np.inf  # likelihood-profile stub (sim/llproxy.py): same override as the system got
                done[r] = True
                self.evals += 1
        return ll if rows is None else ll[np.asarray(rows, dtype=int)]


# -------------------------------------------------------------------------------------------
# reference acceptance model: pure Python loop, no numpy vector tricks


def accept_reference(ll, u, eps=1e-12):
    """Return (accepted positions, ambiguous positions).

    accepted = [i for i in range(n) if exp(ll[i] - max(ll)) > u[i]].  A position is *ambiguous* when
    the two sides are within `eps` of each other (an ulp-level difference between two legitimate unit
    conversions could flip it); runs with ambiguous positions are not judged on acceptance.
    """
    n = len(ll)
    finite = [x for x in ll if not math.isnan(x)]
    if len(finite) != n:
        return None, None  # NaN present: max is NaN, outside the quantifier
    mx = max(ll)
    acc = []
    amb = []
    for i in range(n):
        d = ll[i] - mx
        if math.isnan(d):  # -inf - -inf or inf - inf
            return None, None
        r = math.exp(d) if d > -745 else 0.0
        if abs(r - u[i]) <= eps * max(1.0, abs(r)):
            amb.append(i)
        if r > u[i]:
            acc.append(i)
    return acc, amb


def nonlinear_expected(lib, rows, units):
    """Library rows converted (by astropy) to `units` -- what any path should hand back, <= few ulp."""
    import astropy.units as u

    return lib.nonlinear_in({k: u.Unit(v) if isinstance(v, str) else v for k, v in units.items()}, rows)
