"""SimPool: the simulated processing pool = scheduler + transport + pool-seam monitor.

Stands where `schwimmbad.SerialPool` / `schwimmbad.MultiPool` would.  Every `map` call is a list of
logged scheduler decisions (DESIGN 2.3): chunking, transport per map call, execution order, worker
assignment, lazy/eager delivery, and -- only when the fault plan says so -- failures.

Only behaviours some real pool in scope can exhibit are simulated:
  shared : tasks by reference, in task order, lazily or eagerly   (schwimmbad.SerialPool)
  reduce : each chunk gets a fresh helper built through the helper's own __reduce__ and copies of
           the other task fields; chunks complete in any order on any worker (multiprocess Pool)
  dill   : the whole (func, chunk) goes through dill.dumps/loads, exactly as `multiprocess` does
Results always come back in task order (the `map` contract).  No duplicated or lost tasks.
"""
import pickle

import numpy as np

from . import tape
from .recgen import RecordingGenerator, bitgen_fingerprint


class ProcServers:
    """Persistent real worker processes of this interpreter (fresh interpreters, started on first use)."""

    def __init__(self):
        self.procs = {}
        self.requests = {}

    def get(self, k):
        import atexit
        import os
        import subprocess
        import sys

        p = self.procs.get(k)
        if p is None or p.poll() is not None:
            env = dict(os.environ)
            env["PYTHONHASHSEED"] = str(9000 + k)
            p = subprocess.Popen([sys.executable, "-m", "sim.procworker"], stdin=subprocess.PIPE, stdout=subprocess.PIPE, stderr=subprocess.DEVNULL, env=env,
                                 cwd=os.path.dirname(os.path.dirname(os.path.abspath(__file__))))
            self.procs[k] = p
            self.requests[k] = 0
            if len(self.procs) == 1:
                atexit.register(self.stop)
        return p

    def call(self, k, payload):
        import struct

        p = self.get(k)
        self.requests[k] += 1
        p.stdin.write(struct.pack("<Q", len(payload)))
        p.stdin.write(payload)
        p.stdin.flush()
        hdr = p.stdout.read(8)
        if len(hdr) < 8:
            raise PoolBroken("worker process %d died" % k)
        (n,) = struct.unpack("<Q", hdr)
        return p.stdout.read(n)

    def stop(self):
        for p in self.procs.values():
            try:
                p.stdin.close()
                p.kill()
            except Exception:  # noqa: BLE001
                pass
        self.procs = {}


PROC_SERVERS = ProcServers()


class InjectedFault(Exception):
    """Base marker for exceptions planted by the simulator."""


class WorkerFault(RuntimeError):
    pass


class PoolBroken(RuntimeError):
    pass


# ---------------------------------------------------------------------------------------------


class Decider:
    """Chooses the schedule of each map call.

    mode 'seeded' : draws from the sub-stream keyed by (seed, 'sched', key) -> independent per op.
    mode 'literal': reads `schedule[key]` (replay / minimised traces); missing keys => serial.
    Every decision taken is stored in `self.taken[key]` so a run can be replayed literally.
    """

    def __init__(self, seed=0, schedule=None, profile=None):
        self.seed = seed
        self.literal = schedule
        self.taken = {}
        self.profile = profile or {}

    def decide(self, key, n_tasks, pool_size):
        if self.literal is not None:
            d = self.literal.get(key)
            d = _fit(d, n_tasks, pool_size) if d else _serial(n_tasks)
        else:
            d = self._draw(key, n_tasks, pool_size)
        self.taken[key] = d
        return d

    def _draw(self, key, n_tasks, pool_size):
        r = tape.sub(self.seed, "sched", key)
        p_dill = self.profile.get("p_dill", 0.02)
        p_shared = self.profile.get("p_shared", 0.3)
        x = r.random()
        p_proc = self.profile.get("p_proc", 0.0)
        if x < p_proc:
            transport = "proc"
        elif x < p_proc + p_dill:
            transport = "dill"
        elif x < p_dill + p_shared:
            transport = "shared"
        else:
            transport = "reduce"
        # chunking
        if n_tasks <= 1:
            chunks = [n_tasks] if n_tasks else []
        else:
            mode = r.choice(["ones", "real", "random", "random"])
            if transport in ("dill", "proc"):
                mode = r.choice(["real", "two"])  # few chunks: every dill.loads re-evaluates pytensor graphs
            if mode == "ones":
                chunks = [1] * n_tasks
            elif mode == "real":
                cs, extra = divmod(n_tasks, max(1, pool_size) * 4)
                if extra:
                    cs += 1
                chunks = _cut(n_tasks, cs)
            elif mode == "two":
                a = r.randint(1, n_tasks - 1)
                chunks = [a, n_tasks - a]
            else:
                chunks = []
                left = n_tasks
                while left:
                    c = r.randint(1, max(1, min(left, 1 + n_tasks // 2)))
                    chunks.append(c)
                    left -= c
        nch = len(chunks)
        order = list(range(nch))
        lazy = False
        if transport == "shared":
            lazy = r.random() < 0.5
        else:
            if r.random() < 0.8:
                r.shuffle(order)
        workers = [r.randrange(max(1, pool_size)) for _ in range(nch)]
        return {"transport": transport, "chunks": chunks, "order": order, "workers": workers, "lazy": lazy}


def _cut(n, cs):
    out = []
    while n > 0:
        out.append(min(cs, n))
        n -= cs
    return out


def _serial(n_tasks):
    return {"transport": "shared", "chunks": [1] * n_tasks, "order": list(range(n_tasks)), "workers": [0] * n_tasks, "lazy": False}


def _fit(d, n_tasks, pool_size):
    """Make a recorded decision fit a (possibly shrunk) task list -- used only by literal replay."""
    d = dict(d)
    chunks = [int(c) for c in d.get("chunks", []) if int(c) > 0]
    tot = 0
    out = []
    for c in chunks:
        if tot >= n_tasks:
            break
        c = min(c, n_tasks - tot)
        out.append(c)
        tot += c
    if tot < n_tasks:
        out.append(n_tasks - tot)
    nch = len(out)
    order = [o for o in d.get("order", []) if o < nch]
    seen = set(order)
    order = list(dict.fromkeys(order)) + [i for i in range(nch) if i not in seen]
    workers = list(d.get("workers", []))[:nch]
    workers += [0] * (nch - len(workers))
    workers = [w % max(1, pool_size) for w in workers]
    tr = d.get("transport", "shared")
    if tr == "shared":
        order = list(range(nch))
    return {"transport": tr, "chunks": out, "order": order, "workers": workers, "lazy": bool(d.get("lazy", False)) and tr == "shared"}


# ---------------------------------------------------------------------------------------------


def decode_task(task):
    """(kind, rows-or-range, start, rng|None) from a task tuple; ("unknown", ...) if the layout is not the
    one this observer knows (the observation is then lost, never turned into a violation)."""
    try:
        return _decode_task(task)
    except Exception:  # noqa: BLE001
        rng = next((x for x in (task if isinstance(task, (tuple, list)) else ()) if isinstance(x, np.random.Generator)), None)
        return "unknown", None, None, rng


def _decode_task(task):
    first = task[0]
    if isinstance(first, tuple) and len(first) == 2:
        kind = "range"
        rows = (int(first[0]), int(first[1]))
    else:
        kind = "idx"
        rows = np.array(first)
        if rows.ndim != 1 or rows.dtype.kind not in "iu":
            raise ValueError("not an index array")
    start = task[1]
    rest = list(task[2:])
    rng = None
    if rest and isinstance(rest[-1], np.random.Generator):
        rng = rest[-1]
    return kind, rows, start, rng


class SimPool:
    def __init__(self, size, decider, log=None, record=None, faults=None):
        self.size = int(size)
        self.decider = decider
        self.log = log
        self.rng_record = record
        self.faults = list(faults or [])
        self.op_id = None
        self.map_idx = 0
        self.map_calls = []  # one dict per map call: decoded tasks, fingerprints, decision
        self.closed = False
        self.fired = []
        self.profile_servers = int((getattr(decider, "profile", None) or {}).get("proc_servers", 2))
        self.stats = {"maps": 0, "chunks": 0, "tasks": 0, "transport": {}, "reordered": 0, "lazy": 0, "dill_multi_task_chunk": 0}
        # by-value transports model separate worker PROCESSES: what a worker writes into thejoker's module-level
        # state stays in that worker (overlay per worker id) and is never seen by the parent or by other workers
        self.worker_overlay = {}

    # executor calls this before each op
    def begin_op(self, op_id):
        self.op_id = op_id
        self.map_idx = 0

    # the life-cycle surface of a multiprocess pool: after any of these, map() raises "Pool not running"
    def close(self):
        self.closed = True
        if self.log is not None:
            self.log.add("pool-close", "close")

    def terminate(self):
        self.closed = True
        if self.log is not None:
            self.log.add("pool-close", "terminate")

    def join(self):
        pass

    # multiprocessing-style extras.  imap_unordered yields results in COMPLETION order -- which is the scheduler's
    # decision here, so code that assumes task order while using it is exposed deterministically.
    def imap(self, func, iterable, chunksize=1):
        return iter(self.map(func, iterable))

    def imap_unordered(self, func, iterable, chunksize=1):
        tasks = list(iterable)
        res = self.map(func, tasks)
        res = list(res)
        call = self.map_calls[-1] if self.map_calls else None
        order = []
        if call is not None and len(call.get("executed", [])) == len(tasks):
            order = list(call["executed"])
        else:
            order = list(range(len(tasks)))
        self.stats["imap_unordered"] = self.stats.get("imap_unordered", 0) + 1
        return iter([res[i] for i in order])

    @staticmethod
    def _module_vars():
        import sys

        out = {}
        for name, mod in list(sys.modules.items()):
            if mod is not None and (name == "thejoker" or name.startswith("thejoker.")) and not name.startswith("thejoker.tests"):
                for k, x in list(vars(mod).items()):
                    if not k.startswith("__"):
                        out[(name, k)] = x
        return out

    @staticmethod
    def _is_plain_container(x):
        return isinstance(x, (list, dict, set)) and len(x) <= 64

    def _enter_worker_space(self, worker):
        """Install worker `worker`'s private module-level state; return what is needed to leave again."""
        import copy
        import sys

        parent = self._module_vars()
        # in-place edits of small plain containers are detected by value
        shadow = {}
        for key, x in parent.items():
            if self._is_plain_container(x):
                try:
                    shadow[key] = copy.deepcopy(x)
                except Exception:  # noqa: BLE001
                    pass
        for (mname, k), x in self.worker_overlay.get(worker, {}).items():
            setattr(sys.modules[mname], k, x)
        return parent, shadow

    def _leave_worker_space(self, worker, token):
        import copy
        import sys

        parent, shadow = token
        now = self._module_vars()
        ov = self.worker_overlay.setdefault(worker, {})
        for key, x in now.items():
            if key not in parent or parent[key] is not x:
                ov[key] = x  # written (rebound / created) while this worker ran: it lives in the worker only
            elif key in shadow and self._is_plain_container(x):
                try:
                    changed = x != shadow[key]
                except Exception:  # noqa: BLE001
                    changed = False
                if changed:
                    ov[key] = copy.deepcopy(x)
                    # undo the in-place edit on the parent's object
                    if isinstance(x, list):
                        x[:] = shadow[key]
                    else:
                        x.clear()
                        x.update(shadow[key])
        if ov:
            self.stats["worker_private_module_state"] = self.stats.get("worker_private_module_state", 0) + 1
        for (mname, k), x in parent.items():
            mod = sys.modules.get(mname)
            if mod is not None and vars(mod).get(k, None) is not x:
                setattr(mod, k, x)
        for mname, k in set(now) - set(parent):
            mod = sys.modules.get(mname)
            if mod is not None and hasattr(mod, k):
                delattr(mod, k)

    def _maybe_interleave(self, midx, slot):
        """A SECOND CALLER (another thread / process sharing the machine) runs a whole call of its own while this pool
        is in the middle of a map: before chunk `slot` of map `map`, or after the last chunk (slot 'end')."""
        il = getattr(self, "interleave", None)
        if not il or il.get("fired") or il.get("map") != midx:
            return
        if slot != "end" and slot != il.get("slot"):
            return
        il["fired"] = True
        if self.log is not None:
            self.log.add("interleave", "second-caller", {"map": midx, "slot": slot})
        il["fn"]()

    def _fault_for(self, kind, **match):
        for f in self.faults:
            if f.get("kind") != kind or f.get("done"):
                continue
            if f.get("op") is not None and f.get("op") != self.op_id:
                continue
            if f.get("map") is not None and f.get("map") != match.get("map"):
                continue
            if "task" in match and f.get("task") is not None and f.get("task") != match["task"]:
                continue
            return f
        return None

    def map(self, func, iterable, callback=None):
        if self.closed:
            # what multiprocess.Pool does after close()/terminate()
            raise ValueError("Pool not running")
        tasks = list(iterable)
        key = "%s.%d" % (self.op_id, self.map_idx)
        midx = self.map_idx
        self.map_idx += 1
        n = len(tasks)
        fname = getattr(func, "__name__", repr(func))
        decision = self.decider.decide(key, n, self.size)
        if decision["transport"] == "proc" and (self._fault_for("worker", map=midx) is not None or self._fault_for("dill", map=midx) is not None):
            # worker / serialisation faults are modelled on the in-process copying transport
            decision = dict(decision, transport="dill")
            self.decider.taken[key] = decision
        # ---- monitor: record what crosses the seam
        decoded = []
        for i, t in enumerate(tasks):
            kind, rows, start, rng = decode_task(t)
            decoded.append(
                {
                    "kind": kind,
                    "rows": rows,
                    "start": start,
                    "fp": bitgen_fingerprint(rng.bit_generator) if rng is not None else None,
                    "len": len(t),
                    # a task must never carry the sampler's own (parent) generator: a by-value pool would draw
                    # from a copy and the parent would not advance
                    "is_parent": bool(rng is not None and id(rng.bit_generator) in getattr(self, "parent_bitgens", ())),
                }
            )
        call = {"key": key, "op": self.op_id, "map": midx, "func": fname, "n_tasks": n, "tasks": decoded, "decision": decision, "executed": []}
        self.map_calls.append(call)
        if self.log is not None:
            self.log.add(
                "map-begin",
                fname,
                {"key": key, "n": n, "tasks": [(d["kind"], d["rows"], d["start"], d["fp"]) for d in decoded]},
                decision,
            )
        st = self.stats
        st["maps"] += 1
        st["tasks"] += n
        st["transport"][decision["transport"]] = st["transport"].get(decision["transport"], 0) + 1
        if decision["order"] != sorted(decision["order"]):
            st["reordered"] += 1
        if decision["lazy"]:
            st["lazy"] += 1

        f = self._fault_for("map", map=midx)
        if f is not None:
            f["done"] = True
            self.fired.append({"kind": "map", "key": key})
            if self.log is not None:
                self.log.add("fault-fired", "pool.map", {"key": key})
            raise PoolBroken("SIMFAULT pool.map broken at %s" % key)

        if decision["transport"] == "shared" and decision["lazy"]:
            return self._lazy_shared(func, tasks, call, key, midx)
        return self._eager(func, tasks, call, key, midx, decision)

    # -- shared, lazy: what SerialPool.map does (built-in map) --------------------------------
    def _lazy_shared(self, func, tasks, call, key, midx):
        def gen():
            for i, t in enumerate(tasks):
                self._maybe_interleave(midx, i)
                yield self._run_task(func, self._wrap_shared(t, key, i), call, key, midx, i, worker=0)
            self._maybe_interleave(midx, "end")
            if self.log is not None:
                self.log.add("map-end", key)

        return gen()

    def _wrap_shared(self, task, key, i):
        if isinstance(task[-1], np.random.Generator) and self.rng_record is not None:
            child = task[-1]
            return tuple(task[:-1]) + (RecordingGenerator(child.bit_generator, self.rng_record, "child:%s.%d" % (key, i)),)
        return task

    def _run_task(self, func, task, call, key, midx, i, worker):
        f = self._fault_for("worker", map=midx, task=i)
        if f is not None and f.get("when", "before") == "before":
            f["done"] = True
            self.fired.append({"kind": "worker-before", "key": key, "task": i})
            if self.log is not None:
                self.log.add("fault-fired", "worker", {"key": key, "task": i, "when": "before"})
            raise WorkerFault("SIMFAULT worker failed before task %s/%d" % (key, i))
        res = func(task)
        call["executed"].append(i)
        if self.log is not None:
            self.log.add("chunk-exec", key, {"task": i, "worker": worker}, res if isinstance(res, np.ndarray) else None)
        if f is not None:
            f["done"] = True
            self.fired.append({"kind": "worker-after", "key": key, "task": i})
            if self.log is not None:
                self.log.add("fault-fired", "worker", {"key": key, "task": i, "when": "after"})
            raise WorkerFault("SIMFAULT worker failed after task %s/%d" % (key, i))
        return res

    # -- eager execution with chunks / transports ---------------------------------------------
    def _eager(self, func, tasks, call, key, midx, decision):
        n = len(tasks)
        transport = decision["transport"]
        bounds = []
        a = 0
        for c in decision["chunks"]:
            bounds.append((a, a + c))
            a += c
        results = [None] * n
        first_exc = None
        self.stats["chunks"] += len(bounds)
        multi = self._fault_for("worker", map=midx) or {}
        continue_after = bool(multi.get("continue", transport != "shared"))
        for slot, ci in enumerate(decision["order"]):
            lo, hi = bounds[ci]
            worker = decision["workers"][ci]
            self._maybe_interleave(midx, slot)
            try:
                if transport == "shared":
                    for i in range(lo, hi):
                        results[i] = self._run_task(func, self._wrap_shared(tasks[i], key, i), call, key, midx, i, worker)
                elif transport == "reduce":
                    chunk = self._copy_chunk_reduce(tasks[lo:hi], key, lo)
                    token = self._enter_worker_space(worker)
                    try:
                        for j, t in enumerate(chunk):
                            results[lo + j] = _roundtrip(self._run_task(func, t, call, key, midx, lo + j, worker))
                    finally:
                        self._leave_worker_space(worker, token)
                elif transport == "dill":
                    import dill

                    df = self._fault_for("dill", map=midx)
                    if df is not None:
                        df["done"] = True
                        self.fired.append({"kind": "dill", "key": key})
                        if self.log is not None:
                            self.log.add("fault-fired", "dill.dumps", {"key": key})
                        raise pickle.PicklingError("SIMFAULT cannot serialise task chunk %s/%d" % (key, ci))
                    if hi - lo >= 2:
                        self.stats["dill_multi_task_chunk"] += 1
                    payload = dill.dumps((func, tasks[lo:hi]))
                    f2, chunk = dill.loads(payload)
                    chunk = [self._wrap_copy(t, key, lo + j) for j, t in enumerate(chunk)]
                    token = self._enter_worker_space(worker)
                    try:
                        for j, t in enumerate(chunk):
                            results[lo + j] = _roundtrip(self._run_task(f2, t, call, key, midx, lo + j, worker))
                    finally:
                        self._leave_worker_space(worker, token)
                elif transport == "proc":
                    import dill

                    payload = dill.dumps((func, tasks[lo:hi]))
                    reply = dill.loads(PROC_SERVERS.call(worker % max(1, self.profile_servers), payload))
                    self.stats["proc_chunks"] = self.stats.get("proc_chunks", 0) + 1
                    if reply[0] == "ok":
                        for j, rr in enumerate(reply[1]):
                            results[lo + j] = rr
                            call["executed"].append(lo + j)
                        if self.log is not None:
                            self.log.add("chunk-exec", key, {"chunk": ci, "worker": worker, "transport": "proc"}, [x for x in reply[1] if isinstance(x, np.ndarray)])
                    else:
                        raise reply[1]
                else:
                    raise ValueError(transport)
            except BaseException as e:  # noqa: BLE001 - a pool forwards whatever the worker raised
                if isinstance(e, pickle.PicklingError) and "SIMFAULT" in str(e):
                    # serialisation happens in the parent before anything runs: map fails at once
                    raise
                if transport == "shared" or not isinstance(e, Exception):
                    raise
                exc = _exc_roundtrip(e)
                if first_exc is None:
                    first_exc = exc
                if not continue_after:
                    break
        if first_exc is None:
            self._maybe_interleave(midx, "end")
        if self.log is not None:
            self.log.add("map-end", key)
        if first_exc is not None:
            raise first_exc
        return results

    def _copy_chunk_reduce(self, chunk, key, lo):
        """Fresh helper per chunk through the helper's own __reduce__; copies of the other fields."""
        out = []
        new_helper = {}
        for j, t in enumerate(chunk):
            t = list(t)
            fields = []
            for x in t:
                if getattr(x, "_verif_proxy", False):
                    if id(x) not in new_helper:
                        from .llproxy import rebuild

                        new_helper[id(x)] = rebuild(x)
                    fields.append(new_helper[id(x)])
                elif type(x).__name__ == "CJokerHelper":
                    if id(x) not in new_helper:
                        ctor, args = x.__reduce__()[:2]
                        new_helper[id(x)] = ctor(*args)
                    fields.append(new_helper[id(x)])
                elif isinstance(x, np.random.Generator):
                    bg = pickle.loads(pickle.dumps(x.bit_generator))
                    if self.rng_record is not None:
                        fields.append(RecordingGenerator(bg, self.rng_record, "child:%s.%d" % (key, lo + j)))
                    else:
                        fields.append(np.random.Generator(bg))
                elif isinstance(x, np.ndarray):
                    fields.append(x.copy())
                elif isinstance(x, (str, int, float, bool, type(None))) or (isinstance(x, tuple) and all(isinstance(y, (int, float, str)) for y in x)):
                    fields.append(x)
                else:
                    import dill  # what multiprocess uses: copes with objects plain pickle refuses

                    fields.append(dill.loads(dill.dumps(x)))
            out.append(tuple(fields))
        return out

    def _wrap_copy(self, task, key, i):
        if isinstance(task[-1], np.random.Generator) and self.rng_record is not None:
            return tuple(task[:-1]) + (RecordingGenerator(task[-1].bit_generator, self.rng_record, "child:%s.%d" % (key, i)),)
        return task


def _roundtrip(res):
    # results travel back pickled
    return pickle.loads(pickle.dumps(res))


class PoolWouldHang(BaseException):
    """What a real multiprocess pool does when a worker's exception pickles in the worker but cannot be REBUILT in
    the parent: the result-handler thread dies and map() never returns.  A simulator cannot hang, so the condition
    is raised as a BaseException (every finally still runs) and judged by the oracles as a liveness failure."""


def _exc_roundtrip(e):
    try:
        data = pickle.dumps(e)
    except Exception:  # un-picklable exception: the worker side of multiprocess wraps it (MaybeEncodingError)
        return RuntimeError("MaybeEncodingError: %r" % (e,))
    try:
        e2 = pickle.loads(data)
    except Exception as why:  # noqa: BLE001
        raise PoolWouldHang("SIMPOOL worker exception %s pickles but cannot be rebuilt in the parent (%r): a real pool's result handler dies and map() never returns; original: %s" % (type(e).__name__, why, str(e)[:300])) from e
    if e2.__cause__ is None:
        e2.__cause__ = e.__cause__
    return e2
