"""Worker interpreter: runs a stream of seeds of one property and writes one JSON line per run.

Launched by the parent CLI in a FRESH interpreter (never forked after importing pymc/pytensor).
"""
import argparse
import faulthandler
import json
import os
import sys
import time
import warnings


def main():
    ap = argparse.ArgumentParser()
    ap.add_argument("--prop", required=True)
    ap.add_argument("--tier", default="quick")
    ap.add_argument("--base", type=int, default=0)
    ap.add_argument("--worker", type=int, default=0)
    ap.add_argument("--nworkers", type=int, default=1)
    ap.add_argument("--max-runs", type=int, default=10**9)
    ap.add_argument("--deadline", type=float, default=0.0)
    ap.add_argument("--out", required=True)
    ap.add_argument("--seeds", default="")
    ap.add_argument("--replay-dir", default="/verif/replays")
    ap.add_argument("--hard-timeout", type=float, default=3600.0)
    a = ap.parse_args()
    faulthandler.enable()
    faulthandler.dump_traceback_later(a.hard_timeout, exit=True)
    warnings.filterwarnings("ignore")
    import logging

    logging.getLogger("pymc").setLevel(logging.ERROR)
    logging.getLogger("pytensor").setLevel(logging.ERROR)

    from sim import findings, runner, shrink, tape
    from checks import common

    check = runner.load_check(a.prop)
    known = findings.known_signatures(a.prop)
    out = open(a.out, "a", buffering=1)

    def seeds():
        if a.seeds:
            for s in a.seeds.split(","):
                yield int(s)
            return
        i = 0
        per = max(1, -(-a.nworkers // 8))
        while True:
            seed = a.base * 1_000_003 + i
            if getattr(check, "MIX_PRIORS", False):
                slot = i  # every worker sees every prior configuration (cross-prior process state)
            else:
                slot = common.prior_index_for_seed(seed, a.prop) * per + (i % per)
            if slot % a.nworkers == a.worker:
                yield seed
            i += 1

    n = 0
    shrunk = 0
    seeds_done = []
    for seed in seeds():
        if n >= a.max_runs or (a.deadline and time.time() > a.deadline):
            break
        t0 = time.time()
        program = check.generate(seed, a.tier)
        res = runner.run_program(program, check)
        line = {
            "seed": seed,
            "wall": round(time.time() - t0, 3),
            "harness_error": res.get("harness_error"),
            "digest": res.get("digest"),
            "steps": res.get("steps", 0),
            "probes": res.get("probes", {}),
            "event_counts": res.get("event_counts", {}),
            "pool_stats": res.get("pool_stats"),
            "global_state": res.get("global_state", []),
            "n_ops": res.get("n_ops", 0),
            "violations": [],
            "known": [],
            "faults_fired": res.get("faults_fired", {}),
            "distinct": res.get("distinct", []),
            "op_out_digests": res.get("op_out_digests"),
            "plan_digest": res.get("plan_digest"),
        }
        if res.get("violations"):
            line["prelude"] = list(seeds_done)
        seeds_done.append(seed)
        if res.get("sample") is not None:
            line["sample"] = res["sample"]
        elif n < 2:
            line["sample"] = {"config": program.get("config"), "ops": program.get("ops", [])[:12], "schedule": dict(list((res.get("schedule") or {}).items())[:6])}
        new = []
        for v in res.get("violations", []):
            k_ = findings.match_known(v["signature"], known)
            if k_ is not None:
                line["known"].append({"signature": k_, "seen_as": v["signature"], "detail": v["detail"][:300]})
            else:
                new.append(v)
        if new:
            v0 = new[0]
            rp = None
            if shrunk < 3:
                shrunk += 1
                try:
                    small = shrink.shrink(program, res, v0["signature"], check, budget_s=float(os.environ.get("VERIF_SHRINK_S", "45")), violation=v0)
                    r2 = runner.run_program(small, check)
                    vv = [x for x in r2.get("violations", []) if x["signature"] == v0["signature"]]
                    if not vv:
                        small = dict(program)
                        small["schedule"] = res.get("schedule")
                        r2 = res
                        vv = [v0]
                    small["violation"] = {"oracle": vv[0]["oracle"], "signature": vv[0]["signature"], "detail": vv[0]["detail"], "event_digest": r2.get("digest")}
                    os.makedirs(a.replay_dir, exist_ok=True)
                    rp = os.path.join(a.replay_dir, "%s-%d-min.json" % (a.prop, seed))
                    with open(rp, "w") as f:
                        f.write(tape.jdump(small))
                except Exception as e:  # noqa: BLE001
                    line["shrink_error"] = repr(e)
            line["violations"] = [{"signature": v["signature"], "oracle": v["oracle"], "detail": v["detail"][:500], "replay": rp} for v in new[:5]]
        out.write(tape.jdump(line) + "\n")
        n += 1
    out.write(tape.jdump({"worker_done": a.worker, "runs": n}) + "\n")
    out.close()


if __name__ == "__main__":
    main()
