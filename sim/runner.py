"""Run one program of one property's workload profile and judge it.  Used by workers, replay, shrink."""
import importlib
import os
import random
import traceback

import numpy as np

from . import tape
from .executor import Deployment


def load_check(prop):
    return importlib.import_module("checks." + prop.lower())


class GlobalStateMonitor:
    """numpy legacy global RNG, `random`, and the np.random bit generator must be neither read nor
    written.  Poison them with a run-dependent (but deterministic) value; compare digests after."""

    def __init__(self, poison):
        self.poison = poison

    def arm(self):
        np.random.seed(self.poison % (2**32))
        np.random.normal()  # leaves a cached second Gaussian in the legacy global state (has_gauss=1): swapping the
        # global bit generator in and out silently drops it, which a bare seed() would not show
        random.seed(self.poison)
        random.gauss(0.0, 1.0)
        self.np0 = tape.digest_obj(list(np.random.get_state()))
        self.py0 = tape.digest_obj(repr(random.getstate()))
        self.bg0 = id(np.random.get_bit_generator())

    def check(self):
        out = []
        if tape.digest_obj(list(np.random.get_state())) != self.np0:
            out.append("numpy-global-state-changed")
        if tape.digest_obj(repr(random.getstate())) != self.py0:
            out.append("python-random-state-changed")
        if id(np.random.get_bit_generator()) != self.bg0:
            out.append("numpy-global-bit-generator-replaced")
        return out


def run_program(program, check=None, keep_dep=False):
    """Execute `program` on the real code; return result dict (violations, probes, digest, ...)."""
    check = check or load_check(program["property"])
    if hasattr(check, "run"):  # property with its own driver (C12, C13)
        return check.run(program)
    log = tape.EventLog()
    dep = None
    res = {"seed": program.get("seed"), "violations": [], "probes": {}, "harness_error": None}
    try:
        dep = Deployment(program, log=log)
        gm = GlobalStateMonitor(tape.stable_hash(program.get("seed", 0), "poison", program.get("poison", 0)))
        gm.arm()
        if hasattr(check, "before"):
            check.before(dep, program)
        for op in program["ops"]:
            dep.run_op(op)
        res["global_state"] = gm.check()
        v, probes = check.evaluate(dep, program)
        res["violations"] = v
        res["probes"] = probes
        res["schedule"] = dict(dep.decider.taken)
        res["n_ops"] = len(program["ops"])
        res["steps"] = log.step
        res["event_counts"] = dict(log.counts)
        res["digest"] = log.digest()
        from .executor import _digestable

        res["op_out_digests"] = [tape.digest_obj(_digestable(r["out"]) if r["raised"] is None else {"raised": r["raised"][-1][0]}) for r in dep.history]
        res["plan_digest"] = tape.digest_obj([program["config"], program["ops"], res["schedule"]])
        stats = {}
        distinct = set()
        for pl in dep.pools:
            for k, n in (getattr(pl, "stats", None) or {}).items():
                if isinstance(n, dict):
                    d = stats.setdefault(k, {})
                    for kk, nn in n.items():
                        d[kk] = d.get(kk, 0) + nn
                else:
                    stats[k] = stats.get(k, 0) + n
            for m in getattr(pl, "map_calls", []):
                d = m["decision"]
                if m["n_tasks"] >= 2 or d["transport"] not in ("shared", "serialpool"):
                    distinct.add("sched:" + tape.digest_obj([m["func"], m["n_tasks"], d["transport"], d["chunks"], d["order"], d["workers"], d["lazy"]])[:16])
        res["pool_stats"] = stats
        res["distinct"] = sorted(distinct)[:300]
        if hasattr(check, "distinct"):
            res["distinct"] += check.distinct(dep, program)
        res["ops_summary"] = [
            {"id": r["id"], "op": r["op"]["op"], "raised": (r["raised"][-1][0] if r["raised"] else None)} for r in dep.history
        ]
    except Exception:  # noqa: BLE001
        res["harness_error"] = traceback.format_exc()[-3000:]
    finally:
        if dep is not None and not keep_dep:
            dep.close()
    if keep_dep:
        res["dep"] = dep
    return res
