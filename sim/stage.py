"""Stage /repo's *current working tree* into a scratch directory on tmpfs and (re)build the kernel.

The parent CLI never imports thejoker.  It calls `stage()` once, hands the staged path to the worker
interpreters through PYTHONPATH (which overrides the editable install of /repo in /venv), and removes
the directory on exit.

Kernel: there is no Cython in this sandbox, so `fast_likelihood.pyx` cannot be translated.  The staged
extension is
  * the tree's own `.so` when it is at least as new as the generated `fast_likelihood.c`, else
  * rebuilt from the tree's `fast_likelihood.c` with gcc (≈15 s).
If the `.pyx` is newer than the `.c` this is reported in the tree info (`pyx_newer_than_c`), so the
evidence can say "kernel under test is the last generated C".
"""
import glob
import hashlib
import os
import shutil
import subprocess
import sys
import sysconfig
import tempfile

REPO = os.environ.get("VERIF_REPO", "/repo")
VENV_PY = os.environ.get("VERIF_PYTHON", "/venv/bin/python")
SO_NAME = "fast_likelihood.cpython-312-x86_64-linux-gnu.so"


def _sha256(path):
    h = hashlib.sha256()
    with open(path, "rb") as f:
        for blk in iter(lambda: f.read(1 << 20), b""):
            h.update(blk)
    return h.hexdigest()


def _git(*args):
    try:
        return subprocess.run(
            ["git", "-C", REPO] + list(args), capture_output=True, text=True, timeout=30
        ).stdout.strip()
    except Exception:
        return ""


def build_ext(stage_dir, log=None):
    """Compile thejoker/src/fast_likelihood.c in `stage_dir` with gcc (no setuptools, no Cython)."""
    src = os.path.join(stage_dir, "thejoker", "src")
    c_file = os.path.join(src, "fast_likelihood.c")
    if not os.path.exists(c_file):
        raise RuntimeError("no generated fast_likelihood.c in the tree and no Cython in this sandbox")
    probe = subprocess.run(
        [
            VENV_PY,
            "-c",
            "import numpy, twobody, os, sysconfig;"
            "print(numpy.get_include());print(os.path.dirname(twobody.__file__));"
            "print(sysconfig.get_paths()['include']);print(sysconfig.get_config_var('EXT_SUFFIX'))",
        ],
        capture_output=True,
        text=True,
        timeout=120,
    )
    if probe.returncode != 0:
        raise RuntimeError("cannot locate numpy/twobody headers: " + probe.stderr[-500:])
    np_inc, tb_path, py_inc, ext_suffix = probe.stdout.strip().splitlines()[-4:]
    out = os.path.join(src, "fast_likelihood" + ext_suffix)
    cmd = [
        "gcc", "-shared", "-fPIC", "-O2", "--std=gnu99", "-fwrapv", "-DNDEBUG", "-w",
        "-I", np_inc, "-I", tb_path, "-I", py_inc,
        c_file, os.path.join(tb_path, "src", "twobody.c"),
        "-o", out, "-lm",
    ]
    r = subprocess.run(cmd, capture_output=True, text=True, timeout=600)
    if r.returncode != 0:
        raise RuntimeError("kernel build failed:\n" + r.stderr[-2000:])
    return out


def stage(base=None):
    """Copy /repo/thejoker into a fresh scratch dir; return (stage_dir, tree_info)."""
    base = base or ("/dev/shm" if os.path.isdir("/dev/shm") else tempfile.gettempdir())
    stage_dir = tempfile.mkdtemp(prefix="verif-stage-", dir=base)
    dst = os.path.join(stage_dir, "thejoker")
    shutil.copytree(
        os.path.join(REPO, "thejoker"),
        dst,
        ignore=shutil.ignore_patterns("__pycache__", "*.pyc", "tests"),
    )
    # keep src/tests out (not needed) but keep package markers
    src = os.path.join(dst, "src")
    so = glob.glob(os.path.join(src, "fast_likelihood*.so"))
    c_file = os.path.join(src, "fast_likelihood.c")
    pyx = os.path.join(src, "fast_likelihood.pyx")
    rebuilt = False
    need = not so
    if so and os.path.exists(c_file):
        # compare mtimes of the ORIGINALS (copytree preserves mtime via copy2)
        if os.path.getmtime(c_file) > os.path.getmtime(so[0]) + 1e-6:
            need = True
    if need:
        for s in so:
            os.unlink(s)
        build_ext(stage_dir)
        rebuilt = True
        so = glob.glob(os.path.join(src, "fast_likelihood*.so"))
    pyx_newer = bool(
        os.path.exists(pyx) and os.path.exists(c_file) and os.path.getmtime(pyx) > os.path.getmtime(c_file) + 1e-6
    )
    dirty = [l[3:] for l in _git("status", "--porcelain").splitlines() if l.strip()]
    info = {
        "repo_head": _git("rev-parse", "HEAD"),
        "dirty_files": dirty[:50],
        "kernel_sha256": _sha256(so[0]) if so else None,
        "kernel_rebuilt_from_c": rebuilt,
        "pyx_newer_than_c": pyx_newer,
        "stage_dir": stage_dir,
    }
    return stage_dir, info


def unstage(stage_dir):
    if stage_dir and os.path.basename(stage_dir).startswith("verif-stage-"):
        shutil.rmtree(stage_dir, ignore_errors=True)


if __name__ == "__main__":
    d, info = stage()
    print(d)
    print(info)
    if "--keep" not in sys.argv:
        unstage(d)
