"""Executes a program (explicit JSON: config + ops + schedule + faults) against the REAL thejoker code
inside one simulated deployment, recording a history for the oracles.
"""
import os
import shutil
import tempfile
import traceback

import numpy as np

from . import recgen, simpool, tape
from .world import World

_RUN_COUNTER = [0]


def capture_samples(s):
    """JokerSamples -> plain dict (columns as arrays + unit strings + meta)."""
    cols = {}
    for name in s.par_names:
        c = s.tbl[name]
        val = np.array(getattr(c, "value", c))
        cols[name] = {"v": val, "unit": str(getattr(c, "unit", "")), "dtype": str(val.dtype), "shape": list(val.shape)}
    t_ref = s.t_ref
    return {
        "type": "JokerSamples",
        "n": len(s),
        "names": list(s.par_names),
        "cols": cols,
        "t_ref_mjd": None if t_ref is None else float(t_ref.tcb.mjd),
        "poly_trend": s.poly_trend,
        "n_offsets": s.n_offsets,
    }


def capture(obj):
    tn = type(obj).__name__
    if tn == "JokerSamples":
        return capture_samples(obj)
    if isinstance(obj, np.ndarray):
        return {"type": "ndarray", "v": np.array(obj)}
    if isinstance(obj, tuple):
        return {"type": "tuple", "items": [capture(x) for x in obj]}
    if isinstance(obj, BaseException):
        return {"type": "exception-object", "exc_type": tn, "msg": str(obj)[:200]}
    return {"type": tn, "repr": repr(obj)[:200]}


def exc_chain(e):
    out = []
    seen = set()
    while e is not None and id(e) not in seen:
        seen.add(id(e))
        out.append((type(e).__name__, str(e)[:300]))
        e = e.__cause__ or e.__context__
    return out


class Deployment:
    """One TheJoker + pool + generator + private directories."""

    def __init__(self, program, log=None, workdir=None):
        import tempfile as _tf

        self.program = program
        self.log = log if log is not None else tape.EventLog()
        _RUN_COUNTER[0] += 1
        base = "/dev/shm" if os.path.isdir("/dev/shm") else _tf.gettempdir()
        self.workdir = workdir or _tf.mkdtemp(prefix="verif-run-%d-%d-" % (os.getpid(), _RUN_COUNTER[0]), dir=base)
        self.world = World(program["config"], self.workdir)
        self._old_tempdir = tempfile.tempdir
        tempfile.tempdir = self.world.tmpdir
        cfg = program["config"]
        self.record = recgen.Record(self.log)
        self.parent_bitgens = set()
        self.rng = recgen.make(cfg.get("rng_seed", 0), self.record)
        self.parent_bitgens.add(id(self.rng.bit_generator))
        self.decider = simpool.Decider(program.get("seed", 0), program.get("schedule"), cfg.get("sched_profile"))
        self.pools = []
        self.pool = self.make_pool(cfg.get("pool", {"kind": "sim", "size": 2}), program.get("faults"))
        self.joker = self.make_joker(self.pool, self.rng)
        self.history = []
        self.concurrent = []  # calls made by a second caller in the middle of another call's pool.map
        self.state0 = None
        self.helpers = {}
        self._alias_holder = {}
        self.current_op = None
        self.inmem_batches = []
        self._restore = []
        self.install_inmem_interposer()
        self.batch_tasks_calls = []
        self.install_batch_tasks_interposer()
        self.run_worker_calls = []
        self.install_run_worker_interposer()
        self.state0 = self.module_state()

    def install_run_worker_interposer(self):
        """Observe what each fan-out was ASKED to cover (rows of the file now / n_prior_samples / index array)."""
        import thejoker.multiproc_helpers as mh

        orig = getattr(mh, "run_worker", None)
        if orig is None or getattr(orig, "_verif_wrapped", False):
            return
        dep = self

        import inspect

        sig_rw = inspect.signature(orig)

        def run_worker(*a_, **k_):
            try:
                b = sig_rw.bind(*a_, **k_)
                b.apply_defaults()
                worker, pool, prior_samples_file, n_batches, n_prior_samples, samples_idx = (
                    b.arguments.get(x) for x in ("worker", "pool", "prior_samples_file", "n_batches", "n_prior_samples", "samples_idx"))
            except Exception:  # noqa: BLE001
                return orig(*a_, **k_)
            try:
                import h5py

                with h5py.File(prior_samples_file, "r") as f:
                    n_file = int(f["samples"].shape[0])
            except Exception:  # noqa: BLE001
                n_file = None
            try:
                dep.run_worker_calls.append({"op": dep.current_op, "worker": getattr(worker, "__name__", "?"), "n_file": n_file, "n_batches": n_batches,
                                             "n_prior_samples": None if n_prior_samples is None else int(n_prior_samples),
                                             "samples_idx": None if samples_idx is None else np.array(samples_idx), "pool": id(pool), "pool_maps_before": len(getattr(pool, "map_calls", []))})
            except Exception:  # noqa: BLE001
                pass
            return orig(*a_, **k_)

        run_worker._verif_wrapped = True
        mh.run_worker = run_worker
        self._restore.append((mh, "run_worker", orig))

    def install_batch_tasks_interposer(self):
        """Observe every partition the package really asks for (C16)."""
        import thejoker.multiproc_helpers as mh

        orig = getattr(mh, "batch_tasks", None)
        if orig is None or getattr(orig, "_verif_wrapped", False):
            return
        dep = self

        import inspect

        sig_bt = inspect.signature(orig)

        def batch_tasks(*a_, **k_):
            out = orig(*a_, **k_)
            try:
                b = sig_bt.bind(*a_, **k_)
                b.apply_defaults()
                n_tasks, n_batches, arr, args, start_idx = (b.arguments.get(x) for x in ("n_tasks", "n_batches", "arr", "args", "start_idx"))
                start_idx = start_idx or 0
                dep.batch_tasks_calls.append(
                    {"op": dep.current_op, "n_tasks": int(n_tasks), "n_batches": int(n_batches), "arr": None if arr is None else np.array(arr), "start_idx": int(start_idx),
                     "n_args": 0 if args is None else len(list(args)), "tasks": [(t[0] if isinstance(t[0], tuple) else np.array(t[0]), t[1], len(t)) for t in out]}
                )
            except Exception:  # noqa: BLE001
                pass
            return out

        batch_tasks._verif_wrapped = True
        mh.batch_tasks = batch_tasks
        self._restore.append((mh, "batch_tasks", orig))

    def install_inmem_interposer(self):
        """Observe the in-memory evaluation point (which rows the likelihood sees).  If a refactor
        renames it the observation is lost (reach probe drops to zero), never turned into a violation."""
        import thejoker.likelihood_helpers as lh

        orig = getattr(lh, "marginal_ln_likelihood_inmem", None)
        if orig is None or getattr(orig, "_verif_wrapped", False):
            return
        dep = self

        import inspect

        sig_inmem = inspect.signature(orig)

        def marginal_ln_likelihood_inmem(*args, **kwargs):
            # observation only: whatever the signature becomes, the call itself is passed through untouched
            try:
                b = sig_inmem.bind(*args, **kwargs).arguments
                batch = b.get("prior_samples_batch", args[1] if len(args) > 1 else None)
                dep.inmem_batches.append((dep.current_op, np.array(batch, dtype=np.float64)))
                dep.log.add("inmem-eval", "marginal_ln_likelihood_inmem", {"n": len(batch)})
            except Exception:  # noqa: BLE001
                pass
            return orig(*args, **kwargs)

        marginal_ln_likelihood_inmem._verif_wrapped = True
        marginal_ln_likelihood_inmem.__wrapped__ = orig
        lh.marginal_ln_likelihood_inmem = marginal_ln_likelihood_inmem
        self._restore.append((lh, "marginal_ln_likelihood_inmem", orig))

    def make_pool(self, pspec, faults=None):
        if pspec.get("kind") == "serial":
            p = make_observed_serial_pool(self.log, self.record)
        else:
            pool_faults = [dict(f) for f in (faults or []) if f.get("kind") in ("map", "worker", "dill")]
            p = simpool.SimPool(pspec.get("size", 2), self.decider, self.log, self.record, pool_faults)
        p.parent_bitgens = self.parent_bitgens
        self.pools.append(p)
        return p

    def make_joker(self, pool, rng):
        import thejoker as tj

        rel = self.program["config"].get("joker_tempfile_path_rel")
        tpath = os.path.join(self.workdir, rel) if rel else self.world.tmpdir  # may be a directory that does not exist yet
        j = tj.TheJoker(self.world.prior, pool=pool, rng=rng, tempfile_path=tpath)
        ov = self.program["config"].get("ll_override")
        if ov:
            from . import llproxy

            keys = self.override_keys()
            orig = j._make_joker_helper

            def _make_joker_helper(data):
                return llproxy.HelperProxy(orig(data), keys[data_unit_key(data)], -np.inf)

            # keys depend on the data's RV unit only through column s, which is not part of the key
            def data_unit_key(data):
                return "k"

            j._make_joker_helper = _make_joker_helper
        return j

    def override_keys(self):
        """Nonlinear values (P[d], e, omega[rad], M0[rad]) of every row whose likelihood is forced."""
        if getattr(self, "_ov_keys", None) is None:
            import astropy.units as u

            rows = []
            for li, spec in (self.program["config"].get("ll_override") or {}).items():
                lib = self.world.libraries[int(li)]
                vals = lib.nonlinear_in({"P": u.day, "omega": u.rad, "M0": u.rad}, spec["rows"])
                for i in range(len(spec["rows"])):
                    rows.append([vals["P"][i], vals["e"][i], vals["omega"][i], vals["M0"][i]])
            self._ov_keys = {"k": np.array(rows, dtype=np.float64).reshape(-1, 4)}
        return self._ov_keys

    def close(self):
        for mod, name, orig in self._restore:
            setattr(mod, name, orig)
        self._restore = []
        tempfile.tempdir = self._old_tempdir
        shutil.rmtree(self.workdir, ignore_errors=True)

    # ------------------------------------------------------------------------------------
    def source(self, op):
        lib = self.world.libraries[op.get("lib", 0)]
        if op.get("source", "object") == "file":
            if op.get("alias"):
                # the user keeps ONE file name and regenerates its content (other library, other
                # units): evaluation must reflect what the file holds now
                path = os.path.join(self.world.userdir, "%s.hdf5" % op["alias"])
                if self._alias_holder.get(op["alias"]) != op.get("lib", 0):
                    if op.get("alias_mode") == "append-overwrite" and os.path.exists(path):
                        # the documented "replace only the dataset, keep the file" mode
                        lib.samples.write(path, overwrite=True, append=True)
                    else:
                        lib.samples.write(path, overwrite=True)
                    self._alias_holder[op["alias"]] = op.get("lib", 0)
                    self.log.add("file-write", "alias:%s" % op["alias"], {"lib": op.get("lib", 0)})
                return path
            return self.world.library_file(op.get("lib", 0))
        return lib.samples

    def joker_for(self, op):
        if op.get("joker", "main") == "main":
            return self.joker
        if str(op.get("joker")).startswith("chain:"):
            # a named TheJoker that lives across several ops (its own pool and generator, created on first use)
            if not hasattr(self, "chains"):
                self.chains = {}
            name = op["joker"]
            if name not in self.chains:
                op2 = dict(op, joker="fresh")
                self.chains[name] = self.joker_for(op2)
            return self.chains[name]
        cfg = self.program["config"]
        pool = self.make_pool(op.get("pool", cfg.get("pool", {"kind": "sim", "size": 2})), self.program.get("faults"))
        rng = recgen.make(op.get("rng_seed", cfg.get("rng_seed", 0)), self.record, label="parent@%s" % op.get("id"))
        self.parent_bitgens.add(id(rng.bit_generator))
        self._keep = getattr(self, "_keep", []) + [rng]
        return self.make_joker(pool, rng)

    @staticmethod
    def typed_kw(op):
        """Call kwargs with the argument TYPES the op asks for: the same value as a numpy integer, np.True_ or 1 --
        what user code produces all the time (np.sum(mask), a numpy comparison) and must behave like int / True."""
        kw = dict(op.get("kw", {}))
        for k, t in (op.get("kw_types") or {}).items():
            if k not in kw or kw[k] is None:
                continue
            if t == "i8":
                kw[k] = np.int64(kw[k])
            elif t == "i4":
                kw[k] = np.int32(kw[k])
            elif t == "np.bool" and isinstance(kw[k], bool):
                kw[k] = np.bool_(kw[k])
            elif t == "int01" and isinstance(kw[k], bool):
                kw[k] = int(kw[k])
        return kw

    def run_op(self, op, joker=None):
        if op["op"].startswith("helper_"):
            return self.run_helper_op(op)
        joker = joker or self.joker_for(op)
        w = self.world
        kind = op["op"]
        self.current_op = op.get("id")
        rec = {"op": op, "id": op.get("id"), "draw_lo": len(self.record.draws)}
        pool = joker.pool
        if hasattr(pool, "begin_op"):
            pool.begin_op(op.get("id"))
        map_lo = len(getattr(pool, "map_calls", []))
        self.log.add("op-begin", kind, {k: v for k, v in op.items() if k != "id"})
        if op.get("concurrent") and hasattr(pool, "map_calls"):
            cc = op["concurrent"]
            pool.interleave = {"map": cc.get("at_map", 0), "slot": cc.get("at_slot", 0), "fired": False, "fn": lambda: self.run_concurrent(cc["op"], during=op.get("id"))}
        try:
            if kind == "mll":
                out = joker.marginal_ln_likelihood(
                    w.datasets[op.get("data", 0)], self.source(op), n_batches=op.get("n_batches"), in_memory=op.get("in_memory", False)
                )
            elif kind == "rejection":
                out = joker.rejection_sample(w.datasets[op.get("data", 0)], self.source(op), in_memory=op.get("in_memory", False), **self.typed_kw(op))
            elif kind == "iterative":
                out = joker.iterative_rejection_sample(
                    w.datasets[op.get("data", 0)], self.source(op), in_memory=op.get("in_memory", False), **self.typed_kw(op)
                )
            else:
                raise ValueError("unknown op %r" % kind)
            rec["out"] = capture(out)
            rec["live"] = out  # the object the caller holds: it must not change when LATER calls are made
            rec["raised"] = None
        except (Exception, simpool.PoolWouldHang) as e:  # noqa: BLE001
            rec["out"] = None
            rec["raised"] = exc_chain(e)
            rec["tb"] = traceback.format_exc()[-1500:]
        if getattr(pool, "interleave", None):
            rec["concurrent_fired"] = bool(pool.interleave.get("fired"))
            pool.interleave = None
            self.finish_parked_second()  # a suspended second caller finishes after this op has ended
        rec["draw_hi"] = len(self.record.draws)
        rec["maps"] = list(getattr(pool, "map_calls", [])[map_lo:])
        self.log.add("op-end", kind, None, _digestable(rec["out"]) if rec["raised"] is None else {"raised": rec["raised"][0][0]})
        self.history.append(rec)
        return rec

    # -- "the second caller is a forked sibling": module-level state of thejoker as it was when this run started
    @staticmethod
    def _simple(val, depth=0):
        import itertools

        if val is None or isinstance(val, (bool, int, float, str, bytes, itertools.count)):
            return True
        if depth < 3 and isinstance(val, (list, tuple, set, frozenset)):
            return all(Deployment._simple(x, depth + 1) for x in val)
        if depth < 3 and isinstance(val, dict):
            return all(Deployment._simple(k, depth + 1) and Deployment._simple(x, depth + 1) for k, x in val.items())
        return False

    @staticmethod
    def module_state():
        import copy
        import sys

        snap = {}
        for name, mod in list(sys.modules.items()):
            if mod is not None and (name == "thejoker" or name.startswith("thejoker.")):
                snap[name] = {k: copy.deepcopy(x) for k, x in list(vars(mod).items()) if not k.startswith("__") and Deployment._simple(x)}
        return snap

    @staticmethod
    def install_module_state(snap):
        import copy
        import sys

        for name, d in snap.items():
            mod = sys.modules.get(name)
            if mod is None:
                continue
            for k, x in d.items():
                setattr(mod, k, copy.deepcopy(x))

    def run_concurrent(self, nop, during=None):
        """A whole call by ANOTHER caller (own TheJoker, own generator, the real SerialPool) made while the op `during`
        is inside pool.map -- or, with during=None, the same call made alone afterwards (its twin).  Nothing of it
        is recorded on the shared RNG record; it is judged by comparing the two (checks/sampling.check_concurrent).

        With nop["park_at_map"] = k the second caller is itself suspended when it enters its k-th pool.map (its cache
        file is written by then) and only finishes after the first caller's op has ended: two calls truly overlapping.
        It runs in a real thread, but the baton is passed explicitly -- exactly one of the two ever runs."""
        import threading

        import schwimmbad

        w = self.world
        dep = self
        rec = {"op": nop, "id": nop.get("id"), "during": during, "out": None, "raised": None}
        self.log.add("second-caller-begin", nop["op"], {"during": during})
        forked = bool(nop.get("forked"))
        tmp_before = self._tmp_listing()
        ctx = {"state": None, "main_state": None, "saved_op": None, "parked": False, "done": False,
               "to_second": threading.Event(), "to_main": threading.Event(), "rec": rec, "tmp_before": tmp_before, "nop": nop}
        park_at = nop.get("park_at_map") if during is not None else None

        class ParkingPool(schwimmbad.SerialPool):
            n_maps = 0

            def map(self, func, iterable, callback=None):
                k = ParkingPool.n_maps
                ParkingPool.n_maps += 1
                if park_at is not None and k == park_at and not ctx["parked"]:
                    ctx["parked"] = True
                    dep.log.add("second-caller-parked", nop["op"], {"map": k})
                    ctx["to_main"].set()
                    if not ctx["to_second"].wait(600):
                        raise RuntimeError("harness: parked second caller was never resumed")
                    ctx["to_second"].clear()
                return super().map(func, iterable, callback=callback)

        def body():
            try:
                j = dep.make_joker(ParkingPool(), np.random.default_rng(nop.get("rng_seed", 1)))
                data = w.datasets[nop.get("data", 0)]
                if nop["op"] == "mll":
                    out = j.marginal_ln_likelihood(data, dep.source(nop), n_batches=nop.get("n_batches"), in_memory=nop.get("in_memory", False))
                elif nop["op"] == "rejection":
                    out = j.rejection_sample(data, dep.source(nop), in_memory=nop.get("in_memory", False), **nop.get("kw", {}))
                else:
                    out = j.iterative_rejection_sample(data, dep.source(nop), in_memory=nop.get("in_memory", False), **nop.get("kw", {}))
                rec["out"] = capture(out)
            except Exception as e:  # noqa: BLE001 - the second caller's failure is its own; it must never reach the first one
                rec["raised"] = exc_chain(e)
                rec["tb"] = traceback.format_exc()[-1200:]

        def thread_main():
            ctx["to_second"].wait(600)
            ctx["to_second"].clear()
            try:
                body()
            finally:
                ctx["done"] = True
                ctx["to_main"].set()

        if park_at is None:
            self._enter_second(ctx, forked)
            try:
                body()
            finally:
                self._leave_second(ctx, forked)
            ctx["done"] = True
        else:
            ctx["thread"] = threading.Thread(target=thread_main, daemon=True)
            ctx["thread"].start()
            self._second_step(ctx, forked)
        if ctx["done"]:
            self._second_finished(ctx)
        else:
            self.parked_second = (ctx, forked)
        return rec

    def _enter_second(self, ctx, forked):
        ctx["saved_op"] = self.current_op
        self.current_op = ctx["nop"].get("id")
        if forked:
            # a sibling process forked when this run started: thejoker's module-level state as it was then (and as the
            # sibling left it when it was suspended), another pid
            ctx["main_state"] = self.module_state()
            self.install_module_state(ctx["state"] if ctx["state"] is not None else self.state0)
            ctx["real_getpid"] = os.getpid
            real = os.getpid
            os.getpid = lambda: real() + 1000003

    def _leave_second(self, ctx, forked):
        self.current_op = ctx["saved_op"]
        if forked:
            os.getpid = ctx["real_getpid"]
            ctx["state"] = self.module_state()
            self.install_module_state(ctx["main_state"])

    def _second_step(self, ctx, forked):
        """Hand the baton to the second caller's thread until it parks or finishes."""
        self._enter_second(ctx, forked)
        try:
            ctx["to_second"].set()
            if not ctx["to_main"].wait(600):
                raise RuntimeError("harness: second caller neither parked nor finished within 600 s")
            ctx["to_main"].clear()
        finally:
            self._leave_second(ctx, forked)

    def finish_parked_second(self):
        ps = getattr(self, "parked_second", None)
        if ps is None:
            return
        self.parked_second = None
        ctx, forked = ps
        self.log.add("second-caller-resumed", ctx["nop"]["op"])
        self._second_step(ctx, forked)
        ctx["thread"].join(30)
        self._second_finished(ctx)

    def _second_finished(self, ctx):
        rec, nop = ctx["rec"], ctx["nop"]
        rec["tmp_left"] = sorted(os.path.basename(x) for x in (self._tmp_listing() - ctx["tmp_before"]))
        rec["was_parked"] = bool(ctx["parked"])
        self.log.add("second-caller-end", nop["op"], None, _digestable(rec["out"]) if rec["raised"] is None else {"raised": rec["raised"][0][0]})
        if rec["during"] is not None:
            self.concurrent.append(rec)

    def _tmp_listing(self):
        out = set()
        rel = self.program["config"].get("joker_tempfile_path_rel")
        for d in {self.world.tmpdir, os.path.join(self.workdir, rel) if rel else self.world.tmpdir}:
            if os.path.isdir(d):
                out |= {os.path.join(d, x) for x in os.listdir(d) if x.endswith((".hdf5", ".h5", ".fits"))}
        return out

    def run_helper_op(self, op):
        import thejoker as tj

        w = self.world
        kind = op["op"]
        rec = {"op": op, "id": op.get("id"), "draw_lo": len(self.record.draws), "maps": []}
        self.current_op = op.get("id")  # what the seam observers attribute their observations to
        self.log.add("op-begin", kind, {k: v for k, v in op.items() if k != "id"})
        name = op.get("h", "h0")
        try:
            out = None
            if kind == "helper_new":
                self.helpers[name] = tj.TheJoker(w.prior)._make_joker_helper(w.datasets[op.get("data", 0)])
                self.helpers[name + ":data"] = op.get("data", 0)
            elif kind == "helper_batch_tasks":
                from thejoker.utils import batch_tasks

                arr = None
                if op.get("with_arr"):
                    arr = np.arange(1000, 1000 + op["start_idx"] + op["n_tasks"] + int(op.get("arr_extra", 0))) * 3
                    if op.get("arr_dtype"):
                        arr = arr.astype(np.dtype(op["arr_dtype"]))  # e.g. big-endian indices read from a FITS table
                args = op.get("args")
                res_tasks = batch_tasks(op["n_tasks"], op["n_batches"], arr=arr, args=args, start_idx=op.get("start_idx", 0))
                rec["direct"] = {"arr": arr, "tasks": [(t[0] if isinstance(t[0], tuple) else np.array(t[0]), t[1], list(t[2:])) for t in res_tasks]}
                self.log.add("direct-batch-tasks", "", None, [[list(t[0]) if isinstance(t[0], tuple) else np.array(t[0]), t[1]] for t in res_tasks])
                out = np.array([len(res_tasks)])
            elif kind == "helper_mutate_data":
                # the user updates one survey INSIDE the same container object (dict / list) between calls
                from .world import build_data

                cont = w.datasets[op.get("data", 0)]
                new = build_data(op["new_spec"], w.libraries)
                new_items = list(new.values()) if hasattr(new, "values") else (list(new) if isinstance(new, list) else [new])
                k = op.get("source_idx", 0)
                if hasattr(cont, "keys"):
                    key = list(cont.keys())[k % len(cont)]
                    cont[key] = new_items[k % len(new_items)]
                elif isinstance(cont, list):
                    cont[k % len(cont)] = new_items[k % len(new_items)]
                else:
                    raise ValueError("data %d is a bare RVData: nothing to mutate in place" % op.get("data", 0))
                rcont = w.ref_datasets[op.get("data", 0)]
                if rcont is not cont:  # the references keep their own (canonical) copy: same edit there
                    rnew = build_data(op["new_spec"], w.libraries, canonical=True)
                    rnew_items = list(rnew.values()) if hasattr(rnew, "values") else (list(rnew) if isinstance(rnew, list) else [rnew])
                    if hasattr(rcont, "keys"):
                        rcont[list(rcont.keys())[k % len(rcont)]] = rnew_items[k % len(rnew_items)]
                    else:
                        rcont[k % len(rcont)] = rnew_items[k % len(rnew_items)]
                from .world import snapshot_data

                w.data_ref[op.get("data", 0)] = snapshot_data(cont)  # the USER changed it: new reference
                out = None
            elif kind == "helper_setup_mcmc":
                # the user prepares an MCMC run in between (documented workflow): needs posterior samples and a model
                # context; done on a brand-new JokerPrior so the shared cached prior's pymc model is not touched
                from .world import get_prior

                pr = get_prior(self.program["config"]["prior"], fresh=True)
                jm = tj.TheJoker(pr, rng=recgen.make(op.get("rng_seed", 3)))
                data_ = w.datasets[op.get("data", 0)]
                smp = jm.rejection_sample(data_, w.libraries[op.get("lib", 0)].samples, max_posterior_samples=2, in_memory=True)
                with pr.model:
                    jm.setup_mcmc(data_, smp)
                out = None
            elif kind == "helper_roundtrip":
                h = self.helpers[name]
                if op.get("kind") == "dill":
                    import dill

                    self.helpers[name] = dill.loads(dill.dumps(h))
                else:
                    ctor, args = h.__reduce__()[:2]
                    self.helpers[name] = ctor(*args)
            elif kind in ("helper_mll", "helper_post"):
                h = self.helpers[name]
                lib = w.libraries[op.get("lib", 0)]
                rows = np.asarray(op["rows"], dtype=int)
                arr, _ = lib.samples[rows].pack(units=h.internal_units, names=h.packed_order)
                batch = np.ascontiguousarray(arr, dtype=np.float64)
                if kind == "helper_mll":
                    out = np.array(h.batch_marginal_ln_likelihood(batch))
                else:
                    g = recgen.make(op.get("rng_seed", 1), self.record, label="helper@%s" % op.get("id"))
                    raw, ll = h.batch_get_posterior_samples(batch, int(op.get("n_linear", 1)), g)
                    out = (np.array(raw), np.array(ll))
            else:
                raise ValueError(kind)
            rec["out"] = capture(out) if out is not None else None
            rec["raised"] = None
        except (Exception, simpool.PoolWouldHang) as e:  # noqa: BLE001
            rec["out"] = None
            rec["raised"] = exc_chain(e)
            rec["tb"] = traceback.format_exc()[-1500:]
        rec["draw_hi"] = len(self.record.draws)
        self.log.add("op-end", kind, None, _digestable(rec["out"]) if rec["raised"] is None else {"raised": rec["raised"][0][0]})
        self.history.append(rec)
        return rec

    def results_changed_after_return(self):
        """Ops whose returned object no longer holds what it held when it was returned (a buffer reused by a later call)."""
        bad = []
        for rec in self.history:
            if rec.get("live") is None or rec.get("out") is None:
                continue
            try:
                now = tape.digest_obj(_digestable(capture(rec["live"])))
                then = tape.digest_obj(_digestable(rec["out"]))
            except Exception:  # noqa: BLE001
                continue
            if now != then:
                bad.append(rec)
        return bad

    def draws(self, rec):
        return self.record.draws[rec["draw_lo"] : rec["draw_hi"]]


def make_observed_serial_pool(log=None, rng_record=None):
    """The REAL schwimmbad.SerialPool, observed: tasks are recorded, then the real map runs."""
    import schwimmbad

    class ObservedSerialPool(schwimmbad.SerialPool):
        def __init__(self):
            super().__init__()
            self.map_calls = []
            self.op_id = None
            self.map_idx = 0
            self.log = log

        def begin_op(self, op_id):
            self.op_id = op_id
            self.map_idx = 0

        def map(self, func, iterable, callback=None):
            tasks = list(iterable)
            key = "%s.%d" % (self.op_id, self.map_idx)
            decoded = []
            for t in tasks:
                kind, rows, start, rng = simpool.decode_task(t)
                decoded.append({"kind": kind, "rows": rows, "start": start, "len": len(t),
                                "fp": recgen.bitgen_fingerprint(rng.bit_generator) if rng is not None else None,
                                "is_parent": bool(rng is not None and id(rng.bit_generator) in getattr(self, "parent_bitgens", ()))})
            call = {"key": key, "op": self.op_id, "map": self.map_idx, "func": getattr(func, "__name__", "?"), "n_tasks": len(tasks),
                    "tasks": decoded, "decision": {"transport": "serialpool", "chunks": [1] * len(tasks), "order": list(range(len(tasks))), "workers": [0] * len(tasks), "lazy": True},
                    "executed": list(range(len(tasks)))}
            self.map_calls.append(call)
            self.map_idx += 1
            if self.log is not None:
                self.log.add("map-begin", call["func"], {"key": key, "n": len(tasks), "tasks": [(d["kind"], d["rows"], d["start"], d["fp"]) for d in decoded]}, "serialpool")
            if rng_record is not None:
                tasks = [
                    (tuple(t[:-1]) + (recgen.RecordingGenerator(t[-1].bit_generator, rng_record, "child:%s.%d" % (key, i)),))
                    if isinstance(t[-1], np.random.Generator)
                    else t
                    for i, t in enumerate(tasks)
                ]
            il = getattr(self, "interleave", None)
            if il and not il.get("fired") and il.get("map") == self.map_idx - 1:
                il["fired"] = True  # the real SerialPool has one interleaving point per map: before it runs
                if self.log is not None:
                    self.log.add("interleave", "second-caller", {"map": self.map_idx - 1, "slot": "before-serial-map"})
                il["fn"]()
            return super().map(func, tasks, callback=callback)

    return ObservedSerialPool()


def _digestable(cap):
    if cap is None:
        return None
    if cap["type"] == "JokerSamples":
        return {"n": cap["n"], "names": cap["names"], "cols": {k: v["v"] for k, v in cap["cols"].items()}, "units": {k: v["unit"] for k, v in cap["cols"].items()}}
    if cap["type"] == "ndarray":
        return cap["v"]
    if cap["type"] == "tuple":
        return [_digestable(x) for x in cap["items"]]
    return cap
