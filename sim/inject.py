"""Call-level fault injector (crash points) built on Python 3.12 `sys.monitoring`.

CALL events are enabled *locally* on every code object whose file lives under the staged thejoker
package.  While armed, the callback counts call events; at count k it raises the planned exception at
the call site -- for Python and C callables alike (h5py.File(...), np.concatenate, os.unlink,
pool.map, JokerSamples.unpack, helper.batch_marginal_ln_likelihood, ...).  Needs no edit of /repo and
automatically covers call sites a future change adds.  Calls made inside the Cython kernel are not
visible (covered through the RNG seam instead).
"""
import os
import sys
import types

TOOL = 3  # sys.monitoring tool id (0-5); 3 is free in practice (0 debugger, 1 coverage, 2 profiler)


def collect_code_objects(pkg_name="thejoker"):
    """All code objects defined in modules of the package (functions, methods, closures, nested)."""
    roots = []
    for name, mod in list(sys.modules.items()):
        if mod is None or not (name == pkg_name or name.startswith(pkg_name + ".")):
            continue
        f = getattr(mod, "__file__", None) or ""
        if not f.endswith(".py"):
            continue
        roots.append(mod)
    seen = set()
    codes = []

    def add_code(co):
        if id(co) in seen:
            return
        seen.add(id(co))
        codes.append(co)
        for c in co.co_consts:
            if isinstance(c, types.CodeType):
                add_code(c)

    def visit(obj, depth=0):
        if depth > 4:
            return
        if isinstance(obj, types.FunctionType):
            add_code(obj.__code__)
            w = getattr(obj, "__wrapped__", None)
            if w is not None:
                visit(w, depth + 1)
            for cell in obj.__closure__ or ():
                try:
                    visit(cell.cell_contents, depth + 1)
                except ValueError:
                    pass
        elif isinstance(obj, (classmethod, staticmethod)):
            visit(obj.__func__, depth + 1)
        elif isinstance(obj, property):
            for f in (obj.fget, obj.fset, obj.fdel):
                if f is not None:
                    visit(f, depth + 1)
        elif isinstance(obj, type):
            for v in vars(obj).values():
                visit(v, depth + 1)

    files = set()
    for mod in roots:
        files.add(mod.__file__)
    for mod in roots:
        for v in list(vars(mod).values()):
            mf = getattr(v, "__module__", None)
            if isinstance(v, (types.FunctionType, type)) and (mf or "").startswith(pkg_name):
                visit(v)
    # keep only code defined in the package's own files
    return [c for c in codes if c.co_filename in files or os.sep + pkg_name + os.sep in c.co_filename]


def callable_name(c):
    n = getattr(c, "__qualname__", None) or getattr(c, "__name__", None)
    m = getattr(c, "__module__", None)
    if n is None:
        n = type(c).__name__
    if m and not str(m).startswith("builtins"):
        return "%s.%s" % (m, n)
    return str(n)


_LINE_CACHE = {}


def line_of(code, offset):
    tbl = _LINE_CACHE.get(code)
    if tbl is None:
        tbl = list(code.co_lines())
        _LINE_CACHE[code] = tbl
    for s, e, ln in tbl:
        if s <= offset < e:
            return ln
    return code.co_firstlineno


class Injector:
    """Arm -> count CALL events -> raise at the k-th one."""

    def __init__(self):
        self.mon = sys.monitoring
        self.codes = []
        self.installed = False
        self.armed = False
        self.count = 0
        self.k = None
        self.exc_factory = None
        self.fired = None
        self.trace = None  # list of sites when recording
        self.filter = None  # callable(callable_obj, arg0) -> bool : which calls count
        self.paused = 0

    def install(self, pkg_name="thejoker"):
        if self.installed:
            return
        self.mon.use_tool_id(TOOL, "verif-injector")
        self.codes = collect_code_objects(pkg_name)
        for co in self.codes:
            self.mon.set_local_events(TOOL, co, self.mon.events.CALL)
        self.mon.register_callback(TOOL, self.mon.events.CALL, self._on_call)
        self.installed = True

    def add_function(self, fn):
        """Also watch a harness-side wrapper (rare)."""
        self.mon.set_local_events(TOOL, fn.__code__, self.mon.events.CALL)

    def uninstall(self):
        if not self.installed:
            return
        for co in self.codes:
            try:
                self.mon.set_local_events(TOOL, co, 0)
            except Exception:  # noqa: BLE001
                pass
        self.mon.register_callback(TOOL, self.mon.events.CALL, None)
        self.mon.free_tool_id(TOOL)
        self.installed = False

    # -----------------------------------------------------------------------------------
    def _on_call(self, code, offset, callable_obj, arg0):
        if not self.armed or self.paused:
            return None
        if self.filter is not None and not self.filter(callable_obj, arg0):
            return None
        self.count += 1
        if self.trace is not None:
            self.trace.append((os.path.basename(code.co_filename), code.co_name, line_of(code, offset), callable_name(callable_obj)))
        if self.k is not None and self.count == self.k and self.fired is None:
            site = (os.path.basename(code.co_filename), code.co_name, line_of(code, offset), callable_name(callable_obj))
            exc = self.exc_factory(site)
            self.fired = (site, exc)
            raise exc
        return None

    def dry_run(self, fn, filt=None):
        """Run fn() armed without faults; return (result, exception, list of call sites)."""
        self.count = 0
        self.k = None
        self.fired = None
        self.trace = []
        self.filter = filt
        self.armed = True
        try:
            out = fn()
            err = None
        except BaseException as e:  # noqa: BLE001
            out = None
            err = e
        finally:
            self.armed = False
        tr = self.trace
        self.trace = None
        return out, err, tr

    def run_with_fault(self, fn, k, exc_factory, filt=None):
        """Run fn() raising exc_factory(site) at the k-th counted call.  Returns (result, exception, fired)."""
        self.count = 0
        self.k = k
        self.exc_factory = exc_factory
        self.fired = None
        self.trace = None
        self.filter = filt
        self.armed = True
        try:
            out = fn()
            err = None
        except BaseException as e:  # noqa: BLE001
            out = None
            err = e
        finally:
            self.armed = False
            self.k = None
        return out, err, self.fired


_SINGLETON = [None]


def get():
    if _SINGLETON[0] is None:
        _SINGLETON[0] = Injector()
    return _SINGLETON[0]


# storage callables recognised at thejoker's call sites ------------------------------------------


def storage_filter():
    import os as _os
    import tempfile

    import h5py
    import tables

    names = {
        "h5py._hl.files.File",
        "tables.file.open_file",
        "tables.table.Table.read",
        "tables.table.Table.read_coordinates",
        "h5py._hl.group.Group.create_dataset",
        "h5py._hl.dataset.Dataset.resize",
        "posix.unlink",
        "posix.remove",
        "unlink",
        "remove",
        "tempfile.NamedTemporaryFile",
        "astropy.table.connect.TableRead",
        "astropy.table.connect.TableWrite",
    }
    objs = {id(h5py.File), id(tables.open_file), id(_os.unlink), id(_os.remove), id(tempfile.NamedTemporaryFile)}

    def filt(c, arg0):
        if id(c) in objs:
            return True
        return callable_name(c) in names

    return filt
