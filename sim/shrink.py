"""Minimise a failing program while the SAME violation class (property, signature) persists.

Re-executes the real code for every candidate.  Works on the explicit program (config + ops + literal
schedule + faults), so the minimised trace -- which no seed generates -- replays exactly.
"""
import copy
import time

from . import runner


def _sigs(res):
    return [v["signature"] for v in res.get("violations", [])]


def still_fails(program, signature, check):
    res = runner.run_program(program, check)
    if res.get("harness_error"):
        return False, res
    return signature in _sigs(res), res


def shrink(program, first_res, signature, check, budget_s=60.0, log=None, violation=None):
    t0 = time.time()
    best = copy.deepcopy(program)
    if violation is not None and hasattr(check, "narrow"):
        for cand in check.narrow(best, violation):
            ok, _ = still_fails(cand, signature, check)
            if ok:
                best = cand
                break
    if first_res.get("schedule") is not None and best.get("schedule") is None:
        best["schedule"] = first_res["schedule"]  # freeze the schedule: replay is literal from now on
        if first_res.get("twin_schedule") is not None and "twin" in best:
            best["twin"]["schedule"] = first_res["twin_schedule"]
        ok, r = still_fails(best, signature, check)
        if not ok:
            # literal schedule did not reproduce (should not happen); keep the seeded program
            best = copy.deepcopy(program)
    tried = 0

    def attempt(cand):
        nonlocal best, tried
        if time.time() - t0 > budget_s:
            return False
        tried += 1
        ok, _ = still_fails(cand, signature, check)
        if ok:
            best = cand
        return ok

    # 1. drop ops (ddmin)
    ops = best["ops"]
    n = 2
    while len(ops) >= 2 and time.time() - t0 < budget_s:
        chunk = max(1, len(ops) // n)
        removed = False
        for i in range(0, len(ops), chunk):
            cand = copy.deepcopy(best)
            cand["ops"] = ops[:i] + ops[i + chunk :]
            if not cand["ops"]:
                continue
            if attempt(cand):
                ops = best["ops"]
                n = max(n - 1, 2)
                removed = True
                break
        if not removed:
            if chunk == 1:
                break
            n = min(len(ops), n * 2)
    # 2. drop faults
    for i in range(len(best.get("faults") or []) - 1, -1, -1):
        cand = copy.deepcopy(best)
        del cand["faults"][i]
        attempt(cand)
    # 3. simplify schedules: serial transport, identity order
    if best.get("schedule"):
        cand = copy.deepcopy(best)
        cand["schedule"] = {}
        if not attempt(cand):
            for key in sorted(best["schedule"]):
                cand = copy.deepcopy(best)
                cand["schedule"].pop(key, None)
                if attempt(cand):
                    continue
                d = best["schedule"].get(key)
                if d and d.get("order") != sorted(d.get("order", [])):
                    cand = copy.deepcopy(best)
                    cand["schedule"][key]["order"] = sorted(d["order"])
                    attempt(cand)
    # 4. smaller pool
    for op_holder in [best["config"]]:
        if op_holder.get("pool", {}).get("kind") == "sim" and op_holder["pool"].get("size", 1) > 1:
            cand = copy.deepcopy(best)
            cand["config"]["pool"]["size"] = 1
            attempt(cand)
    # 5. property-specific reductions
    chk = check
    if hasattr(chk, "shrink_candidates"):
        progress = True
        while progress and time.time() - t0 < budget_s:
            progress = False
            for cand in chk.shrink_candidates(best):
                if attempt(cand):
                    progress = True
                    break
    best["minimised"] = True
    best["shrink_stats"] = {"candidates_tried": tried, "wall_s": round(time.time() - t0, 2), "ops_before": len(program["ops"]), "ops_after": len(best["ops"])}
    return best
