"""known_findings.json: committed, never written at run time.

Entry: {"property", "status": "known"|"fixed", "signature", "what", "where"[, "commit"]}.
A signature is computed by the oracle from the violation itself (entry point, path, option that
matters, symptom class), never from the seed.  `known` -> KNOWN-FINDING line, exit 0.
`fixed` suppresses nothing.
"""
import json
import os

PATH = os.path.join(os.path.dirname(os.path.dirname(os.path.abspath(__file__))), "known_findings.json")


def load():
    if not os.path.exists(PATH):
        return []
    with open(PATH) as f:
        return json.load(f).get("findings", [])


def known_signatures(prop=None):
    return {f["signature"]: f for f in load() if f.get("status") == "known" and (prop is None or f["property"] == prop)}


def match_known(signature, known):
    """Exact signature, or a glob pattern (fnmatch) when the finding covers several call sites that share one cause.
    Returns the key of the matching entry or None."""
    import fnmatch

    if signature in known:
        return signature
    for pat in known:
        if any(ch in pat for ch in "*?[") and fnmatch.fnmatchcase(signature, pat):
            return pat
    return None
