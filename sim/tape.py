"""Seeded, labelled sub-streams.  One integer (VERIF_SEED-derived run seed) decides everything.

`sub(seed, *labels)` returns a `random.Random` whose state depends only on (seed, labels) through a
stable hash (BLAKE2b) -- never through Python's `hash()`, so it is independent of PYTHONHASHSEED and
of how many draws other sub-streams made.  Deleting an op during minimisation therefore does not
shift the decisions taken for the other ops.
"""
import hashlib
import json
import random
import struct

import numpy as np


def stable_hash(*parts) -> int:
    h = hashlib.blake2b(digest_size=8)
    for p in parts:
        h.update(repr(p).encode("utf-8"))
        h.update(b"\x1f")
    return int.from_bytes(h.digest(), "big")


def sub(seed, *labels) -> random.Random:
    return random.Random(stable_hash(seed, *labels))


def np_sub(seed, *labels) -> np.random.Generator:
    """numpy Generator for bulk value generation (library rows, data) -- never handed to thejoker."""
    return np.random.Generator(np.random.PCG64(stable_hash(seed, *labels)))


# ---------------------------------------------------------------------------------------------
# digests used by the event log: floats by their bytes, containers structurally


def digest_obj(obj, h=None):
    top = h is None
    if top:
        h = hashlib.blake2b(digest_size=16)
    if obj is None:
        h.update(b"N")
    elif isinstance(obj, (bool, np.bool_)):
        h.update(b"b1" if obj else b"b0")
    elif isinstance(obj, (int, np.integer)):
        h.update(b"i" + str(int(obj)).encode())
    elif isinstance(obj, (float, np.floating)):
        h.update(b"f" + struct.pack("<d", float(obj)))
    elif isinstance(obj, str):
        h.update(b"s" + obj.encode("utf-8") + b"\x00")
    elif isinstance(obj, bytes):
        h.update(b"y" + obj + b"\x00")
    elif isinstance(obj, np.ndarray):
        a = np.ascontiguousarray(obj)
        h.update(b"a" + str(a.dtype.str).encode() + str(a.shape).encode())
        h.update(a.tobytes())
    elif isinstance(obj, (list, tuple)):
        h.update(b"[")
        for x in obj:
            digest_obj(x, h)
        h.update(b"]")
    elif isinstance(obj, dict):
        h.update(b"{")
        for k in sorted(obj, key=str):
            digest_obj(str(k), h)
            digest_obj(obj[k], h)
        h.update(b"}")
    else:
        h.update(b"r" + repr(obj).encode("utf-8"))
    if top:
        return h.hexdigest()
    return None


class EventLog:
    """Append-only record of every seam crossing.  Never draws from a PRNG, never reads a clock."""

    def __init__(self, keep=4000):
        self.events = []
        self.step = 0
        self._h = hashlib.blake2b(digest_size=16)
        self.keep = keep
        self.counts = {}

    def add(self, kind, site="", args=None, result=None):
        self.step += 1
        ad = digest_obj(args) if args is not None else ""
        rd = digest_obj(result) if result is not None else ""
        line = (self.step, kind, site, ad, rd)
        self._h.update(("%d|%s|%s|%s|%s\n" % line).encode("utf-8"))
        self.counts[kind] = self.counts.get(kind, 0) + 1
        if len(self.events) < self.keep:
            self.events.append(line)
        return self.step

    def digest(self):
        return self._h.hexdigest()


def jdump(obj):
    return json.dumps(obj, sort_keys=True, default=_json_default)


def _json_default(o):
    if isinstance(o, np.ndarray):
        return o.tolist()
    if isinstance(o, (np.integer,)):
        return int(o)
    if isinstance(o, (np.floating,)):
        return float(o)
    if isinstance(o, (np.bool_,)):
        return bool(o)
    if isinstance(o, (set, frozenset)):
        return sorted(o, key=str)
    if isinstance(o, bytes):
        return o.hex()
    return repr(o)
