"""Likelihood-profile stub: force the marginal ln-likelihood of designated library rows to -inf.

The C02 / C14 quantifier includes "-inf values next to at least one finite value", which the real
kernel cannot be made to produce with finite data in this code base (non-finite stored values give NaN
or a TypeError).  So, in a stated fraction of C02 / C06 / C14 runs, the helper handed out by
TheJoker._make_joker_helper is wrapped: everything is delegated to the REAL CJokerHelper, only the
likelihood values of the designated rows (identified by their nonlinear VALUES, never by batch
position -- so the profile is schedule- and history-independent) are replaced.  The reference L* gets
the same override.  Evidence reports these runs as "kernel output stubbed".
"""
import numpy as np


class HelperProxy:
    _verif_proxy = True

    def __init__(self, real, keys, value=-np.inf):
        self._real = real
        self._keys = np.asarray(keys, dtype=np.float64).reshape(-1, 4)
        self._value = float(value)

    def __getattr__(self, name):
        return getattr(self._real, name)

    def _mask(self, chunk):
        c = np.asarray(chunk, dtype=np.float64)[:, :4]
        if len(self._keys) == 0 or len(c) == 0:
            return np.zeros(len(c), dtype=bool)
        d = np.abs(c[:, None, :] - self._keys[None, :, :]) <= 1e-12 * np.maximum(np.abs(self._keys[None, :, :]), 1e-300)
        return d.all(axis=2).any(axis=1)

    def batch_marginal_ln_likelihood(self, chunk):
        ll = np.array(self._real.batch_marginal_ln_likelihood(chunk))
        ll[self._mask(chunk)] = self._value
        return ll

    def batch_get_posterior_samples(self, chunk, n_linear_samples_per, rng):
        return self._real.batch_get_posterior_samples(chunk, n_linear_samples_per, rng)

    def __reduce__(self):
        return (HelperProxy, (self._real, self._keys, self._value))


def rebuild(proxy):
    """What a worker process would hold after unpickling: inner helper rebuilt through its own __reduce__."""
    ctor, args = proxy._real.__reduce__()[:2]
    return HelperProxy(ctor(*args), proxy._keys, proxy._value)
