"""A REAL worker process, stepped deterministically (the "proc" transport of SimPool).

Started as a fresh interpreter (never forked), it executes one chunk of tasks per request and replies;
the parent waits for each reply, so the interleaving is still entirely the simulator's decision.
What it adds over the in-process transports: true per-process module state -- module globals set in
the parent do not exist here, caches are not shared with the parent or with other servers.
Protocol on stdin/stdout: 8-byte little-endian length + dill payload.
"""
import os
import struct
import sys
import traceback
import warnings


def main():
    warnings.filterwarnings("ignore")
    inp = sys.stdin.buffer
    out = os.fdopen(os.dup(1), "wb")
    os.dup2(2, 1)  # anything that prints to fd 1 must not corrupt the protocol
    sys.stdout = sys.stderr
    import dill

    while True:
        hdr = inp.read(8)
        if len(hdr) < 8:
            break
        (n,) = struct.unpack("<Q", hdr)
        payload = inp.read(n)
        try:
            func, tasks = dill.loads(payload)
            res = []
            for t in tasks:  # mapstar semantics: the chunk aborts at its first failing task
                res.append(func(t))
            reply = ("ok", res)
        except BaseException as e:  # noqa: BLE001
            reply = ("err", e, traceback.format_exc()[-2000:])
        try:
            data = dill.dumps(reply)
        except Exception:  # noqa: BLE001
            data = dill.dumps(("err", RuntimeError("unpicklable result or exception: %r" % (reply[1],)), ""))
        out.write(struct.pack("<Q", len(data)))
        out.write(data)
        out.flush()


if __name__ == "__main__":
    main()
