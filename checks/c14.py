"""C14 -- iterative rejection sampling respects request, budget and acceptance rule."""
import numpy as np

from sim import oracles, tape
from sim.oracles import Violation

from . import common, sampling

PROPERTY = "C14"


def generate(seed, tier="quick"):
    rnd = tape.sub(seed, PROPERTY, "gen")
    max_n = 120 if tier == "quick" else 300
    cfg = common.base_config(seed, PROPERTY, rnd, tier=tier, n_libs=1, n_data=2, profile=rnd.choice(["flat", "weak", "informative", "informative", "spike"]))
    lib = cfg["libraries"][0]
    lib["n"] = rnd.choice([1, 2, 3, 5, 8, 13, 21, 34, 55, 89, rnd.randint(1, max_n), rnd.randint(1, max_n)])
    lib["duplicates"] = [d for d in lib["duplicates"] if d[0] < lib["n"] and d[1] < lib["n"]]
    for d in cfg["datasets"]:
        if d.get("orbit_from"):
            d["orbit_from"] = [0, d["orbit_from"][1] % lib["n"]]
    nan_lib = sampling.add_nan_library(rnd, cfg, 0, p=0.2)
    sampling.add_neg_inf_profile(rnd, cfg, 0, p=0.15)
    alt = sampling.add_alt_units_library(rnd, cfg, 0, p=0.25)
    N = lib["n"]
    ops = []
    for oid in range(rnd.randint(2, 4)):
        p, pname = sampling.gen_path(rnd)
        op = {"id": oid, "op": "iterative", "data": rnd.randrange(len(cfg["datasets"])), "lib": 0, "joker": "main", "role": "target"}
        if nan_lib is not None and rnd.random() < 0.4:
            op["lib"] = nan_lib
        op.update(p)
        if op["lib"] == 0:
            sampling.use_alt_library(rnd, op, alt)
        op["kw"] = sampling.gen_iterative_kw(rnd, N, pname, logprobs=0.0)
        sampling.add_arg_types(rnd, op)
        ops.append(op)
    prog = {"format": 1, "property": PROPERTY, "seed": seed, "config": cfg, "ops": ops, "schedule": None, "faults": []}
    sampling.add_concurrent(rnd, prog)
    sampling.add_failed_op(rnd, prog)
    return prog


def judge_iterative(dep, rec, L, prop, probes):
    v = []
    op = rec["op"]
    A = sampling.analyse(dep, rec, L)
    kw = A.kw
    N = A.N
    sig = "%s:iterative:%s" % (prop, A.path)
    info = {"A": A, "expected_rows": None, "ll": None, "judged": False}

    def probe(k, n=1):
        probes[k] = probes.get(k, 0) + n

    if sampling.failed_as_injected(rec):
        probe("failed_op_in_history(injected pool fault, raised)")
        info["legit_raise"] = True
        return v, info
    n_req = int(kw["n_requested_samples"])
    max_prior = kw.get("max_prior_samples")
    budget = N if max_prior is None else min(int(max_prior), N)
    init = kw.get("init_batch_size")
    first_window = int(init) if init is not None else int(kw.get("growth_factor", 128)) * n_req
    # ---- outcome type: either a JokerSamples or a raised exception, nothing else
    if rec["raised"] is None:
        out = rec["out"]
        if out["type"] != "JokerSamples":
            what = out.get("exc_type", out["type"])
            v.append(Violation(prop, prop + ".returns-non-samples", sig + ":returns-%s-instead-of-raising" % what, "returned %s for %s" % (str(out)[:200], op)))
            return v, info
    E = A.seam_rows
    if E is None:
        if rec["raised"] is None:
            probe("observation_lost:evaluated-rows")
            return v, info
        E = []
    info["E"] = E
    if A.path == "in_memory" and any(x < 0 for x in E):
        v.append(Violation(prop, prop + ".evaluated-values", sig + ":likelihood-evaluated-on-values-that-are-not-library-rows", "%d evaluated row(s) match no library row" % sum(1 for x in E if x < 0)))
        return v, info
    # ---- rows requested beyond the library cannot be evaluated: the read fails
    if any((x < 0 or x >= N) for x in E):
        if rec["raised"] is None:
            v.append(Violation(prop, prop + ".row-range", sig + ":evaluated-row-outside-library", "rows %s" % [x for x in E if x < 0 or x >= N][:10]))
            return v, info
        probe("requested_rows_beyond_library_then_raised")
        E = [x for x in E if 0 <= x < N]
        info["E"] = E
    # ---- budget / no row twice
    if len(E) > budget:
        v.append(
            Violation(
                prop,
                prop + ".budget",
                sig + ":evaluates-more-than-max_prior_samples",
                "max_prior_samples=%s N=%d budget=%d but %d rows were evaluated" % (max_prior, N, budget, len(E)),
            )
        )
    if len(set(E)) != len(E):
        seen = set()
        dup = [x for x in E if x in seen or seen.add(x)]
        v.append(Violation(prop, prop + ".row-twice", sig + ":same-library-row-evaluated-twice", "rows %s evaluated twice (evaluated %s...)" % (dup[:10], list(E)[:30])))
    n_rounds = len(A.mll_maps) if A.path != "in_memory" else len(getattr(A, "inmem_batches", []))
    if n_rounds >= 3:
        probe("rounds>=3")
    if n_rounds > 130:
        v.append(Violation(prop, prop + ".progress", sig + ":more-than-130-rounds", "%d likelihood rounds" % n_rounds))
    if len(E) == budget and n_rounds >= 2:
        probe("clamped_to_library_end_or_budget")
    # ---- too small a library must raise
    if first_window > budget:
        probe("library_too_small_for_first_window")
        if rec["raised"] is None:
            v.append(Violation(prop, prop + ".too-small", sig + ":library-too-small-but-no-exception", "first window %d > budget %d, returned %d rows" % (first_window, budget, rec["out"]["n"])))
        else:
            info["legit_raise"] = True
        return v, info
    ll = sampling.lstar_for(A, L, E) if len(E) else np.zeros(0)
    info["ll"] = ll
    if rec["raised"] is not None:
        info["legit_raise"] = True  # any failure may surface as an exception; only the type of a *return* is constrained
        probe("raised:" + rec["raised"][-1][0])
        if len(E) and np.any(~np.isfinite(ll)):
            probe("raised_with_nonfinite_likelihood")
        return v, info
    out = rec["out"]
    info["out"] = out
    if len(E) and np.any(np.isnan(ll)):
        probe("returned_with_nan_likelihood:not-judged")
        return v, info
    if A.randomize and A.parent_perm and np.isscalar(A.parent_perm[0].get("a")) and int(A.parent_perm[0]["a"]) != N:
        v.append(Violation(prop, prop + ".shuffle", sig + ":shuffle-drawn-over-a-population-that-is-not-the-library", "rng.choice over %s items, the library has %d rows" % (A.parent_perm[0]["a"], N)))
    if A.randomize and A.perm is not None:
        perm = [int(x) for x in A.perm]
        if len(set(perm)) != len(perm) or any(x < 0 or x >= N for x in perm):
            v.append(Violation(prop, prop + ".shuffle", sig + ":shuffle-not-a-subset-without-repeats", str(perm[:30])))
        elif perm[: len(E)] != list(E):
            packed = L.packed(op.get("data", 0), op.get("lib", 0))
            if len(perm) >= len(E) and oracles.same_values(packed[perm[: len(E)]], packed[list(E)]):
                E = perm[: len(E)]
                info["E"] = E
            else:
                v.append(Violation(prop, prop + ".order", sig + ":evaluated-rows-differ-from-shuffled-order", "evaluated %s vs shuffle %s" % (list(E)[:20], perm[:20])))
        probe("randomized_order")
    elif A.randomize and A.path != "in_memory":
        v.append(Violation(prop, prop + ".shuffle", sig + ":randomize_prior_order-without-draw-from-sampler-generator", "no choice/permutation recorded"))
    # ---- acceptance against the max over ALL evaluated rows, with the LAST uniform vector
    us = A.parent_uniform
    if not us:
        v.append(Violation(prop, prop + ".uniforms", sig + ":no-uniforms-from-sampler-generator", "no uniform draw recorded on the sampler's generator"))
        return v, info
    u = np.atleast_1d(us[-1]["result"]).ravel()
    if len(u) != len(E):
        # tolerate chunked draws: take the trailing draws that add up to len(E)
        tot = 0
        parts = []
        for d in reversed(us):
            r = np.atleast_1d(d["result"]).ravel()
            parts.append(r)
            tot += len(r)
            if tot >= len(E):
                break
        u = np.concatenate(parts[::-1]) if tot == len(E) else u
    if len(u) != len(E):
        v.append(Violation(prop, prop + ".uniforms", sig + ":deciding-uniforms-do-not-cover-all-evaluated-samples", "last uniform vector has %d entries for %d evaluated rows" % (len(u), len(E))))
        return v, info
    acc, amb = oracles.accept_reference([float(x) for x in ll], [float(x) for x in u])
    if acc is None:
        probe("nan_or_inf-inf_likelihood:not-judged")
        return v, info
    if amb:
        probe("ambiguous_acceptance:not-judged")
        return v, info
    exp_pos = acc[:n_req]
    expected_rows = [E[i] for i in exp_pos]
    info["expected_rows"] = expected_rows
    info["exp_pos"] = exp_pos
    info["judged"] = True
    probe("judged_ops")
    probe("path:" + A.path)
    if len(acc) >= n_req:
        probe("request_satisfied")
    else:
        probe("fewer_than_requested_available")
    if out["n"] > n_req * A.nl:
        v.append(Violation(prop, prop + ".request", sig + ":returns-more-than-n_requested_samples", "n_requested=%d n_linear=%d returned %d rows" % (n_req, A.nl, out["n"])))
    v += sampling.check_rows_unaltered(dep, A, out, expected_rows, prop, sig)
    return v, info


def evaluate(dep, program):
    probes = {}
    v = []
    L = oracles.LStar(dep.world)
    for rec in dep.history:
        if rec["op"]["op"] != "iterative":
            continue
        vv, info = judge_iterative(dep, rec, L, PROPERTY, probes)
        v += vv
    probes["lstar_evals"] = L.evals
    for rec_ in dep.results_changed_after_return():
        v.append(Violation("C14", "C14.result-mutated", "C14:%s:result-returned-earlier-was-changed-by-a-later-call" % rec_["op"]["op"], "the object returned by op %s no longer holds the values it held when it was returned" % (rec_["op"],)))
    for li, lib in enumerate(dep.world.libraries):
        bad = lib.modified_in_place()
        if bad:
            v.append(Violation("C14", "C14.input-modified", "C14:library-object-modified-in-place-by-a-call", "library %d: column(s) %s of the user's JokerSamples object no longer hold what was put there; later calls see another library" % (li, bad)))
    if program["config"].get("ll_override"):
        probes["runs_with_neg_inf_profile_stub(kernel output overridden)"] = 1
    v += sampling.check_concurrent(dep, "C14", probes)
    return v, probes
