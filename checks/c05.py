"""C05 -- results do not depend on batching, pool, cache path or call history (DESIGN 4 / C05)."""
import numpy as np

from sim import oracles, tape
from sim.oracles import Violation

from . import common
from . import sampling as _sampling

PROPERTY = "C05"
LEVEL = "exploration"


def _history_op(rnd, cfg, oid):
    """A call that dirties the helper / joker state: other data, other library, posterior stage."""
    nl = len(cfg["libraries"])
    nd = len(cfg["datasets"])
    kind = rnd.choice(["mll", "rejection", "rejection", "iterative"])
    lib = rnd.randrange(nl)
    n = cfg["libraries"][lib]["n"]
    op = {"id": oid, "op": kind, "data": rnd.randrange(nd), "lib": lib, "source": rnd.choice(["object", "file"]), "joker": "main", "role": "history"}
    if kind == "mll":
        op["in_memory"] = op["source"] == "object" and rnd.random() < 0.5
        op["n_batches"] = common.gen_n_batches(rnd, n)
    elif kind == "rejection":
        op["in_memory"] = op["source"] == "object" and rnd.random() < 0.5
        op["kw"] = {"n_linear_samples": rnd.choice([1, 1, 2, 3]), "n_batches": common.gen_n_batches(rnd, n)}
        if rnd.random() < 0.3:
            op["kw"]["randomize_prior_order"] = True
    else:
        op["in_memory"] = op["source"] == "object" and rnd.random() < 0.5
        op["kw"] = {"n_requested_samples": rnd.randint(1, 4), "init_batch_size": rnd.randint(1, n), "n_linear_samples": rnd.choice([1, 2])}
    if op["source"] == "file" and rnd.random() < 0.4:
        op["alias"] = "shared"
        op["alias_mode"] = rnd.choice(["overwrite", "overwrite", "append-overwrite"])
    return op


def _path(rnd, cfg):
    src = rnd.choice(["object-mem", "object-cache", "file"])
    p = {"source": "file" if src == "file" else "object", "in_memory": src == "object-mem"}
    if src == "file" and rnd.random() < 0.35:
        p["alias"] = "shared"
        p["alias_mode"] = rnd.choice(["overwrite", "overwrite", "append-overwrite"])
    p["joker"] = rnd.choice(["main", "main", "fresh"])
    if p["joker"] == "fresh":
        p["pool"] = rnd.choice([{"kind": "serial"}, {"kind": "sim", "size": rnd.randint(1, 6)}])
    return p


def generate(seed, tier="quick"):
    rnd = tape.sub(seed, PROPERTY, "gen")
    max_n = 120 if tier == "quick" else 300
    lib_n = rnd.choice([1, 2, 3, 5, 8, 13, 21, 34, 55, 89, rnd.randint(1, max_n), rnd.randint(1, max_n)])
    cfg = common.base_config(seed, PROPERTY, rnd, tier=tier, n_libs=2, n_data=2, lib_n=None)
    cfg["libraries"][0]["n"] = lib_n
    cfg["libraries"][1]["n"] = min(cfg["libraries"][1]["n"], max_n)
    for d in cfg["datasets"]:
        if d.get("orbit_from"):
            li, row = d["orbit_from"]
            d["orbit_from"] = [li, row % cfg["libraries"][li]["n"]]
    for lib in cfg["libraries"]:
        lib["duplicates"] = [d for d in lib["duplicates"] if d[0] < lib["n"] and d[1] < lib["n"]]
    N = lib_n
    ops = []
    oid = 0
    if cfg["datasets"][0]["n_sources"] > 1 and rnd.random() < 0.5:
        # history: evaluate, then update one survey inside the SAME container object, then everything else
        for _h in range(rnd.randint(1, 2)):
            h = _history_op(rnd, cfg, oid)
            h["data"] = 0
            ops.append(h)
            oid += 1
        import copy as _copy

        ns = _copy.deepcopy(cfg["datasets"][0])
        ns["gen_seed"] = rnd.getrandbits(48)
        ns["profile"] = rnd.choice(["weak", "informative"])
        ops.append({"id": oid, "op": "helper_mutate_data", "data": 0, "source_idx": rnd.randrange(ns["n_sources"]), "new_spec": ns, "role": "mutate"})
        oid += 1
    for _ in range(rnd.randint(5, 9)):
        for _h in range(rnd.choice([0, 0, 1, 1, 2])):
            ops.append(_history_op(rnd, cfg, oid))
            oid += 1
        if rnd.random() < 0.03:
            ops.append({"id": oid, "op": "helper_setup_mcmc", "data": 0, "lib": 0, "rng_seed": rnd.getrandbits(20), "role": "mcmc-setup"})
            oid += 1
        p = _path(rnd, cfg)
        op = {"id": oid, "op": "mll", "data": 0, "lib": 0, "role": "target", "n_batches": common.gen_n_batches(rnd, N)}
        op.update(p)
        ops.append(op)
        oid += 1
    # clause (b): equal seeds => identical accepted set on every path
    rs = rnd.getrandbits(32)
    kw = {"n_linear_samples": rnd.choice([1, 1, 2])}
    if rnd.random() < 0.4:
        kw["max_posterior_samples"] = rnd.randint(1, max(1, N))
    if rnd.random() < 0.4:
        kw["randomize_prior_order"] = True
    if rnd.random() < 0.4:
        kw["n_prior_samples"] = rnd.randint(1, max(1, N))
    for _ in range(rnd.randint(2, 4)):
        p = _path(rnd, cfg)
        p["joker"] = "fresh"
        p.setdefault("pool", rnd.choice([{"kind": "serial"}, {"kind": "sim", "size": rnd.randint(1, 6)}]))
        k2 = dict(kw)
        if not p["in_memory"]:
            k2["n_batches"] = common.gen_n_batches(rnd, k2.get("n_prior_samples") or N)
        op = {"id": oid, "op": "rejection", "data": 0, "lib": 0, "role": "accept", "rng_seed": rs, "kw": k2}
        op.update(p)
        from . import sampling as _sampling

        _sampling.add_arg_types(rnd, op, p=0.3)
        ops.append(op)
        oid += 1
    # clause (b) for the ITERATIVE sampler: equal seeds and equal windows => the same accepted rows whatever the
    # cache path (object / file), the pool and its transports, and the batching of the posterior stage
    if rnd.random() < 0.5:
        rs3 = rnd.getrandbits(32)
        kwi = {"n_requested_samples": rnd.choice([1, 2, 3, 5, 8, rnd.randint(1, max(1, N))]), "init_batch_size": rnd.randint(1, max(1, N)), "n_linear_samples": rnd.choice([1, 1, 2])}
        if rnd.random() < 0.4:
            kwi["randomize_prior_order"] = True
        if rnd.random() < 0.3:
            kwi["max_prior_samples"] = rnd.randint(kwi["init_batch_size"], max(kwi["init_batch_size"], N))
        if rnd.random() < 0.3:
            kwi["growth_factor"] = rnd.choice([2, 8, 128])
        for _ in range(rnd.randint(2, 3)):
            k2 = dict(kwi)
            k2["n_batches"] = rnd.choice([None, 1, 2, 3, rnd.randint(1, 8)])
            ops.append({"id": oid, "op": "iterative", "data": 0, "lib": 0, "role": "accept-iter", "rng_seed": rs3, "kw": k2, "joker": "fresh", "in_memory": False,
                        "source": rnd.choice(["object", "file"]), "pool": rnd.choice([{"kind": "serial"}, {"kind": "sim", "size": rnd.randint(1, 6)}, {"kind": "sim", "size": rnd.randint(2, 6)}])})
            oid += 1
    # clause (b) over HISTORIES: several file-path samplers with equal seeds make the same sequence of calls but
    # with different batching / pool / cache-vs-file; the accepted set must agree at every step (in-memory is left
    # out: it consumes the parent stream for the linear draws, so later calls legitimately differ from the file path)
    if rnd.random() < 0.6:
        rs2 = rnd.getrandbits(32)
        n_steps = rnd.randint(2, 3)
        steps = []
        for _s in range(n_steps):
            k3 = {"n_linear_samples": rnd.choice([1, 2])}
            if rnd.random() < 0.4:
                k3["randomize_prior_order"] = True
            if rnd.random() < 0.3:
                k3["n_prior_samples"] = rnd.randint(1, max(1, N))
            steps.append(k3)
        for c in range(rnd.randint(2, 3)):
            src = rnd.choice(["object", "file"])
            pool = rnd.choice([{"kind": "serial"}, {"kind": "sim", "size": rnd.randint(1, 6)}])
            for si, k3 in enumerate(steps):
                k4 = dict(k3)
                k4["n_batches"] = common.gen_n_batches(rnd, k4.get("n_prior_samples") or N)
                ops.append({"id": oid, "op": "rejection", "data": 0, "lib": 0, "role": "chain", "chain": c, "step": si, "joker": "chain:%d" % c, "pool": pool, "rng_seed": rs2,
                            "source": src, "in_memory": False, "kw": k4})
                oid += 1
    # helper-level workload: one long-lived CJokerHelper
    ops.append({"id": oid, "op": "helper_new", "h": "h0", "data": 0, "role": "helper"})
    oid += 1
    for _ in range(rnd.randint(3, 8)):
        c = rnd.random()
        k = rnd.randint(1, min(N, 12))
        rows = [rnd.randrange(N) for _ in range(k)]
        if c < 0.5:
            ops.append({"id": oid, "op": "helper_mll", "h": "h0", "lib": 0, "rows": rows, "role": "helper"})
        elif c < 0.8:
            ops.append({"id": oid, "op": "helper_post", "h": "h0", "lib": 0, "rows": rows, "n_linear": rnd.choice([1, 2, 3]), "rng_seed": rnd.getrandbits(20), "role": "helper"})
        else:
            ops.append({"id": oid, "op": "helper_roundtrip", "h": "h0", "kind": "dill" if rnd.random() < 0.1 else "reduce", "role": "helper"})
        oid += 1
    prog = {"format": 1, "property": PROPERTY, "seed": seed, "config": cfg, "ops": ops, "schedule": None, "faults": []}
    _sampling.add_concurrent(rnd, prog, p=0.15)
    # a "history" call (other data / library / posterior stage on the main sampler) that FAILS half-way is history too
    _sampling.add_failed_op(rnd, prog, p=0.2, roles=("history",))
    return prog


def map_rows(packed, cols):
    """Map returned rows (dict name -> internal-unit values) to the smallest matching library row."""
    names = ["P", "e", "omega", "M0", "s"]
    ret = np.stack([np.asarray(cols[k], dtype=float) for k in names], axis=1)
    out = []
    for r in ret:
        tol = 16 * np.finfo(float).eps * np.maximum(np.abs(packed), np.abs(r)[None, :])
        m = np.all((np.abs(packed - r[None, :]) <= tol) | (np.isnan(packed) & np.isnan(r)[None, :]), axis=1)
        idx = np.nonzero(m)[0]
        out.append(int(idx[0]) if len(idx) else -1)
    return out


def evaluate(dep, program):
    """Return (violations, probes)."""
    v = []
    probes = {}

    def probe(k, n=1):
        probes[k] = probes.get(k, 0) + n

    w = dep.world
    cfg = program["config"]
    L = oracles.LStar(w)
    internal = common.internal_units_lib(cfg["libraries"][0], {"rv_unit": cfg["datasets"][0]["rv_unit"]})
    if not internal:
        probe("library_non_internal_units")
    if cfg["libraries"][0].get("dtype") == "f4":
        probe("f4_library")
    N = w.libraries[0].n
    file_ref = None
    had_post_stage = False
    for rec in dep.history:
        op = rec["op"]
        role = op.get("role")
        if role == "history":
            if op["op"] in ("rejection", "iterative") and rec["raised"] is None:
                had_post_stage = True
            if _sampling.failed_as_injected(rec):
                probe("failed_call_in_history(injected pool fault, raised)")
            continue
        if role == "target":
            if rec["raised"] is not None:
                v.append(Violation(PROPERTY, "C05.path-raises", "C05:mll:%s:raises:%s" % (_pname(op), rec["raised"][-1][0]), "op %s raised %s" % (op, rec["raised"])))
                continue
            out = rec["out"]
            if out["type"] != "ndarray":
                v.append(Violation(PROPERTY, "C05.type", "C05:mll:%s:wrong-type" % _pname(op), "returned %s" % out["type"]))
                continue
            ll = out["v"]
            ref = L.get(0, 0)
            nb = op.get("n_batches")
            if nb is not None and not op.get("in_memory"):
                probe("n_batches>n_rows" if nb > N else ("n_batches==n_rows" if nb == N else "n_batches<n_rows"))
            if had_post_stage:
                probe("history_contained_posterior_stage")
            for m in rec["maps"]:
                tr = m["decision"]["transport"]
                probe("transport:" + tr)
                if tr == "dill" and any(c >= 2 for c in m["decision"]["chunks"]):
                    probe("dill_chunk_with_>=2_tasks")
            if ll.shape != ref.shape:
                v.append(Violation(PROPERTY, "C05.length", "C05:mll:%s:length" % _pname(op), "len %s vs N=%d for %s" % (ll.shape, N, op)))
                continue
            if op.get("in_memory") or internal:
                ok = oracles.same_values(ll, ref)
            else:
                ok = oracles.close_ll(ll, ref)
            if not ok:
                v.append(
                    Violation(
                        PROPERTY,
                        "C05.value-vs-rowwise-reference",
                        "C05:mll:%s:value-differs-from-row-at-a-time" % _pname(op),
                        "op=%s history_before=%d  %s" % (op, sum(1 for r in dep.history[: dep.history.index(rec)] if r["op"].get("role") == "history"), oracles.first_diff(ll, ref)),
                    )
                )
            if not op.get("in_memory"):
                if file_ref is None:
                    file_ref = (ll, op)
                elif not oracles.same_values(ll, file_ref[0]):
                    v.append(
                        Violation(
                            PROPERTY,
                            "C05.file-paths-bitwise",
                            "C05:mll:file-paths-disagree",
                            "op=%s vs op=%s: %s" % (op, file_ref[1], oracles.first_diff(ll, file_ref[0])),
                        )
                    )
    # clause (b)
    acc_ref = None
    packed = L.packed(0, 0)
    for rec in dep.history:
        op = rec["op"]
        if op.get("role") != "accept":
            continue
        if rec["raised"] is not None:
            v.append(Violation(PROPERTY, "C05.path-raises", "C05:rejection:%s:raises:%s" % (_pname(op), rec["raised"][-1][0]), "op %s raised %s" % (op, rec["raised"])))
            continue
        out = rec["out"]
        if out["type"] != "JokerSamples":
            v.append(Violation(PROPERTY, "C05.type", "C05:rejection:%s:wrong-type" % _pname(op), out["type"]))
            continue
        nl = op["kw"].get("n_linear_samples", 1)
        try:
            rows = map_rows(packed, {k: out["cols"][k]["v"] for k in ["P", "e", "omega", "M0", "s"]})
        except KeyError as e:
            v.append(Violation(PROPERTY, "C05.columns", "C05:rejection:%s:missing-column" % _pname(op), repr(e)))
            continue
        rows = rows[::nl]
        probe("accept_paths")
        if acc_ref is None:
            acc_ref = (rows, op)
        elif rows != acc_ref[0]:
            v.append(
                Violation(
                    PROPERTY,
                    "C05.accepted-set",
                    "C05:rejection:accepted-set-differs-across-paths",
                    "rows %s (op %s) vs %s (op %s)" % (rows[:20], op, acc_ref[0][:20], acc_ref[1]),
                )
            )
    # clause (b), iterative sampler
    it_ref = None
    for rec in dep.history:
        op = rec["op"]
        if op.get("role") != "accept-iter":
            continue
        if rec["raised"] is not None:
            got = ("raised", rec["raised"][-1][0])
        elif rec["out"]["type"] != "JokerSamples":
            v.append(Violation(PROPERTY, "C05.type", "C05:iterative:%s:wrong-type" % _pname(op), rec["out"]["type"]))
            continue
        else:
            nl = op["kw"].get("n_linear_samples", 1)
            got = ("rows", map_rows(packed, {k: rec["out"]["cols"][k]["v"] for k in ["P", "e", "omega", "M0", "s"]})[::nl])
        probe("iterative_accept_paths")
        for m in rec["maps"]:
            probe("iterative_transport:" + m["decision"]["transport"])
        if it_ref is None:
            it_ref = (got, op)
        elif got != it_ref[0]:
            v.append(Violation(PROPERTY, "C05.accepted-set", "C05:iterative:accepted-set-differs-across-pools-or-paths",
                               "%s (%s) vs %s (%s)" % (str(got)[:160], {k: op[k] for k in ("source", "pool", "kw")}, str(it_ref[0])[:160], {k: it_ref[1][k] for k in ("source", "pool", "kw")})))
    # clause (b) over histories
    step_ref = {}
    for rec in dep.history:
        op = rec["op"]
        if op.get("role") != "chain":
            continue
        if rec["raised"] is not None:
            v.append(Violation(PROPERTY, "C05.path-raises", "C05:rejection:%s:raises:%s" % (_pname(op), rec["raised"][-1][0]), "op %s raised %s" % (op, rec["raised"])))
            continue
        out = rec["out"]
        nl = op["kw"].get("n_linear_samples", 1)
        rows = map_rows(packed, {k: out["cols"][k]["v"] for k in ["P", "e", "omega", "M0", "s"]})[::nl]
        probe("chain_steps_compared")
        if op["step"] >= 1:
            probe("chain_later_call_compared")
        ref = step_ref.setdefault(op["step"], (rows, op))
        if rows != ref[0]:
            v.append(Violation(PROPERTY, "C05.accepted-set", "C05:rejection:accepted-set-of-a-later-call-depends-on-how-earlier-calls-were-batched",
                               "call #%d of the sequence: rows %s (%s) vs %s (%s)" % (op["step"], rows[:15], {k: op[k] for k in ("source", "pool", "kw")}, ref[0][:15], {k: ref[1][k] for k in ("source", "pool", "kw")})))
    # helper-level
    for rec in dep.history:
        op = rec["op"]
        if op.get("role") == "mcmc-setup":
            probe("setup_mcmc_in_history" if rec["raised"] is None else "setup_mcmc_raised")
            continue
        if op.get("role") == "mutate":
            if rec["raised"] is not None:
                probe("harness:mutate_data_failed")
            else:
                probe("data_container_mutated_in_place")
            continue
        if op.get("role") != "helper":
            continue
        if rec["raised"] is not None:
            v.append(Violation(PROPERTY, "C05.helper-raises", "C05:helper:%s:raises" % op["op"], "%s raised %s" % (op, rec["raised"])))
            continue
        if op["op"] == "helper_roundtrip":
            probe("helper_roundtrip:" + op.get("kind", "reduce"))
        if op["op"] == "helper_mll":
            ref = L.get(0, 0, op["rows"])
            probe("helper_mll")
            if not oracles.same_values(rec["out"]["v"], ref):
                v.append(
                    Violation(
                        PROPERTY,
                        "C05.helper-history",
                        "C05:helper:value-depends-on-batch-or-history",
                        "rows=%s %s" % (op["rows"], oracles.first_diff(rec["out"]["v"], ref)),
                    )
                )
        if op["op"] == "helper_post":
            probe("helper_post")
            raw = rec["out"]["items"][0]["v"]
            ll = rec["out"]["items"][1]["v"]
            nl = int(op.get("n_linear", 1))
            ref = np.repeat(L.get(0, 0, op["rows"]), nl)
            # the posterior stage reports the same marginal likelihood for the row -- only compared
            # for finiteness pattern + shape here (its K-variance cap differs by design of the code)
            if raw.shape[0] != len(op["rows"]) * nl or ll.shape != ref.shape:
                v.append(Violation(PROPERTY, "C05.helper-post-shape", "C05:helper:posterior-shape", "raw %s ll %s rows %d nl %d" % (raw.shape, ll.shape, len(op["rows"]), nl)))
            else:
                exp = np.repeat(packed[np.asarray(op["rows"])], nl, axis=0)
                if not oracles.same_values(raw[:, :5], exp):
                    v.append(Violation(PROPERTY, "C05.helper-post-rows", "C05:helper:posterior-nonlinear-altered", oracles.first_diff(raw[:, :5], exp)))
    probes["lstar_evals"] = L.evals
    for j_, why_ in dep.world.data_modified_in_place():
        v.append(Violation(PROPERTY, "C05.input-modified", "C05:data-object-modified-in-place-by-a-call", "data set %d: %s; later calls on the same data see other numbers" % (j_, why_)))
    for rec_ in dep.results_changed_after_return():
        v.append(Violation("C05", "C05.result-mutated", "C05:%s:result-returned-earlier-was-changed-by-a-later-call" % rec_["op"]["op"], "the object returned by op %s no longer holds the values it held when it was returned" % (rec_["op"],)))
    for li, lib in enumerate(dep.world.libraries):
        bad = lib.modified_in_place()
        if bad:
            v.append(Violation("C05", "C05.input-modified", "C05:library-object-modified-in-place-by-a-call", "library %d: column(s) %s of the user's JokerSamples object no longer hold what was put there; later calls see another library" % (li, bad)))
    v += _sampling.check_concurrent(dep, "C05", probes)
    return v, probes


def _pname(op):
    if op.get("in_memory"):
        return "in_memory"
    return "cache" if op.get("source") == "object" else "file"
