"""C16 -- work partitioning covers every prior sample exactly once, in order.

Simulation part: invariant on every task list crossing the pool seam and on every batch_tasks call the
package really makes, over all workloads.  `start_idx > 0` is never used by the package, so that part of
the quantifier is exercised by direct seeded calls of utils.batch_tasks -- plain random testing of a
pure function, labelled as such in the evidence."""
import numpy as np

from sim import oracles, tape
from sim.oracles import Violation

from . import common, sampling

PROPERTY = "C16"


def generate_big(seed):
    """Scale probe (thorough tier, ~1 run in 2000): a file-path rejection step whose posterior stage fans out MORE than
    65536 accepted indices in few batches (flat likelihood: every row is accepted).  C16 judges coverage only, so no
    likelihood reference is needed."""
    rnd = tape.sub(seed, PROPERTY, "gen-big")
    cfg = common.base_config(seed, PROPERTY, rnd, tier="thorough", n_libs=1, n_data=1, profile="flat", allow_f4=False)
    lib = cfg["libraries"][0]
    lib["n"] = 65536 + rnd.randint(1000, 9000)
    lib["duplicates"] = []
    lib["view"] = None
    cfg["datasets"][0]["orbit_from"] = None
    cfg["sched_profile"] = {"p_dill": 0.0, "p_proc": 0.0, "p_shared": 1.0}
    op = {"id": 0, "op": "rejection", "data": 0, "lib": 0, "source": "file", "in_memory": False, "joker": "main", "role": "target",
          "kw": {"n_batches": rnd.choice([1, 1, 2]), "n_linear_samples": 1}}
    return {"format": 1, "property": PROPERTY, "seed": seed, "config": cfg, "ops": [op], "schedule": None, "faults": [], "scale_probe": True}


def generate(seed, tier="quick"):
    if tier == "thorough" and seed % 2000 == 11:
        return generate_big(seed)
    rnd = tape.sub(seed, PROPERTY, "gen")
    cfg = common.base_config(seed, PROPERTY, rnd, tier=tier, n_libs=1, n_data=1)
    lib = cfg["libraries"][0]
    lib["n"] = rnd.choice([1, 2, 3, 4, 5, 6, 7, 8, 9, 10, 11, 12, 13, 16, 17, 23, 31, 32, 33, rnd.randint(1, 60)])
    lib["duplicates"] = []
    d = cfg["datasets"][0]
    if d.get("orbit_from"):
        d["orbit_from"] = [0, d["orbit_from"][1] % lib["n"]]
    import copy as _copy

    lib2 = _copy.deepcopy(lib)
    lib2["n"] = rnd.choice([1, 2, 3, 5, 7, 12, 20, rnd.randint(1, 60)])
    lib2["gen_seed"] = rnd.getrandbits(48)
    cfg["libraries"].append(lib2)
    ops = []
    oid = 0
    for _ in range(rnd.randint(2, 5)):
        kind = rnd.choice(["mll", "mll", "rejection", "iterative"])
        src = rnd.choice(["object", "file"])
        li = rnd.randrange(2)
        N = cfg["libraries"][li]["n"]
        op = {"id": oid, "op": kind, "data": 0, "lib": li, "source": src, "in_memory": False, "joker": rnd.choice(["main", "fresh"]), "role": "target"}
        if src == "file" and rnd.random() < 0.5:
            op["alias"] = "shared"
            op["alias_mode"] = rnd.choice(["overwrite", "overwrite", "append-overwrite"])  # one file name, rewritten with the other library (other row count) in between
        if op["joker"] == "fresh":
            op["pool"] = rnd.choice([{"kind": "serial"}, {"kind": "sim", "size": rnd.randint(1, 7)}])
        nb = rnd.choice([None, 1, 2, 3, N - 1 if N > 1 else 1, N, N + 1, N + rnd.randint(2, 9), rnd.randint(1, max(1, N))])
        if kind == "mll":
            op["n_batches"] = nb
        elif kind == "rejection":
            op["kw"] = {"n_batches": nb, "n_linear_samples": 1}
            if rnd.random() < 0.5:
                op["kw"]["randomize_prior_order"] = True
            if rnd.random() < 0.5:
                op["kw"]["n_prior_samples"] = rnd.randint(1, N)
        else:
            op["kw"] = {"n_requested_samples": rnd.randint(1, 3), "init_batch_size": rnd.randint(1, N), "n_batches": nb, "randomize_prior_order": rnd.random() < 0.5}
        ops.append(op)
        oid += 1
    for _ in range(rnd.randint(4, 12)):
        nt = rnd.choice([1, 2, 3, 4, 5, 7, 8, 9, 10, 16, 17, rnd.randint(1, 200)])
        nbm = rnd.choice([1, 2, 3, nt - 1 if nt > 1 else 1, nt, nt + 1, nt + rnd.randint(2, 20), rnd.randint(1, max(1, nt))])
        ops.append({"id": oid, "op": "helper_batch_tasks", "n_tasks": nt, "n_batches": nbm, "start_idx": rnd.choice([0, 0, 1, 2, 5, rnd.randint(0, 50)]), "with_arr": rnd.random() < 0.5,
                    "arr_dtype": rnd.choice([None, None, ">i8", "<i4", ">i4", "<u4", "<f8"]),
                    # the array may be longer than start_idx + n_tasks: only that window of it is to be handed out
                    "arr_extra": rnd.choice([0, 0, 1, 7, rnd.randint(1, 60)]),
                    "args": rnd.choice([None, ["x"], ["x", 3]]), "role": "direct"})
        oid += 1
    # history: the same (n_tasks, n_batches) asked again with another start index, then from 0 again
    direct = [o for o in ops if o["op"] == "helper_batch_tasks"]
    for o in rnd.sample(direct, min(len(direct), rnd.randint(1, 3))):
        for st in (rnd.randint(1, 40), 0):
            o2 = dict(o)
            o2["id"] = oid
            o2["start_idx"] = st
            ops.append(o2)
            oid += 1
    return {"format": 1, "property": PROPERTY, "seed": seed, "config": cfg, "ops": ops, "schedule": None, "faults": []}


def check_tasks(tasks, n_tasks, start_idx, arr, where, extra_args=None):
    """tasks: list of (first, start, rest|len).  Reference = the statement itself, not a particular partition."""
    v = []
    if not tasks:
        return [Violation(PROPERTY, "C16.nonempty", "C16:%s:no-batches" % where, "n_tasks=%d" % n_tasks)]
    pos = start_idx
    for i, t in enumerate(tasks):
        first, st = t[0], t[1]
        if isinstance(first, tuple):
            i1, i2 = int(first[0]), int(first[1])
            if arr is not None:
                return [Violation(PROPERTY, "C16.kind", "C16:%s:index-ranges-returned-for-array-input" % where, str(first))]
            if i1 != pos:
                return [Violation(PROPERTY, "C16.contiguous", "C16:%s:batches-not-contiguous-or-overlapping" % where, "batch %d starts at %d, previous ended at %d (n_tasks=%d start_idx=%d): %s" % (i, i1, pos, n_tasks, start_idx, [x[0] for x in tasks][:12]))]
            ln = i2 - i1
        else:
            a = np.asarray(first)
            ln = len(a)
            if arr is None:
                return [Violation(PROPERTY, "C16.kind", "C16:%s:array-returned-for-range-input" % where, str(a[:5]))]
            want = np.asarray(arr)[pos : pos + ln]
            if not np.array_equal(a, want):
                return [Violation(PROPERTY, "C16.cover-array", "C16:%s:batch-not-the-next-elements-of-the-array" % where, "batch %d = %s, expected %s" % (i, a[:10], want[:10]))]
        if ln <= 0:
            return [Violation(PROPERTY, "C16.nonempty", "C16:%s:empty-batch" % where, "batch %d empty; sizes %s" % (i, [(x[0][1] - x[0][0]) if isinstance(x[0], tuple) else len(x[0]) for x in tasks][:20]))]
        if st != pos:
            v.append(Violation(PROPERTY, "C16.start-index", "C16:%s:task-does-not-carry-its-own-start-index" % where, "batch %d carries %r, own start %d" % (i, st, pos)))
            return v
        if extra_args is not None and isinstance(t[2], list) and t[2] != list(extra_args):
            return [Violation(PROPERTY, "C16.args", "C16:%s:extra-args-not-forwarded" % where, "%r vs %r" % (t[2], extra_args))]
        pos += ln
    if pos != start_idx + n_tasks:
        return [Violation(PROPERTY, "C16.cover", "C16:%s:batches-do-not-cover-the-requested-range" % where, "covered [%d, %d), requested [%d, %d)" % (start_idx, pos, start_idx, start_idx + n_tasks))]
    return v


def evaluate(dep, program):
    probes = {}
    v = []

    def probe(k, n=1):
        probes[k] = probes.get(k, 0) + n

    vv, pp = sampling.check_partition(dep, PROPERTY)
    v += vv
    for k, n in pp.items():
        probe(k, n)
    # every partition the package really asked for during the simulated ops
    for c in dep.batch_tasks_calls:
        probe("package_batch_tasks_calls")
        rel = "n_batches>n_tasks" if c["n_batches"] > c["n_tasks"] else ("n_batches==n_tasks" if c["n_batches"] == c["n_tasks"] else "n_batches<n_tasks")
        probe("sim:%s:%s" % (rel, "arr" if c["arr"] is not None else "range"))
        if c["n_tasks"] % max(1, c["n_batches"]):
            probe("sim:remainder!=0")
        if c["n_tasks"] >= 1:
            v += check_tasks(c["tasks"], c["n_tasks"], c["start_idx"], c["arr"], "package-call")
    # what crosses the pool seam is exactly what the partition produced (nothing dropped, added or reordered)
    by_op = {}
    for c in dep.batch_tasks_calls:
        by_op.setdefault(c["op"], []).append(c)
    for pl in dep.pools:
        seen_per_op = {}
        for m in getattr(pl, "map_calls", []):
            calls = by_op.get(m["op"], [])
            i = seen_per_op.get(m["op"], 0)
            seen_per_op[m["op"]] = i + 1
            if m.get("map") is None or m["map"] >= len(calls):
                continue
            c = calls[m["map"]]
            if any(t["kind"] == "unknown" for t in m["tasks"]):
                continue
            want = [(tuple(t[0]) if isinstance(t[0], tuple) else [int(x) for x in t[0]]) for t in c["tasks"]]
            got = [(tuple(t["rows"]) if t["kind"] == "range" else [int(x) for x in t["rows"]]) for t in m["tasks"]]
            probe("seam_vs_partition_compared")
            if want != got:
                v.append(Violation(PROPERTY, "C16.seam", "C16:pool-seam:tasks-differ-from-the-partition-produced", "map %s: partition made %d batches %s, pool received %d %s" % (m["key"], len(want), want[:6], len(got), got[:6])))
    if program.get("scale_probe"):
        probe("scale_probe_runs(>65536 indices in the posterior fan-out)")
    # every fan-out covers exactly what it was asked to cover: the supplied index array in order, else the first
    # n_prior_samples rows, else every row the file holds NOW
    pools = {id(pl): pl for pl in dep.pools}
    for c in dep.run_worker_calls:
        pl = pools.get(c["pool"])
        if pl is None:
            continue
        maps = getattr(pl, "map_calls", [])
        if c["pool_maps_before"] >= len(maps):
            continue  # the call failed before reaching the pool
        m = maps[c["pool_maps_before"]]
        if any(t["kind"] == "unknown" for t in m["tasks"]):
            continue
        rows = []
        for t in m["tasks"]:
            rows += list(range(*t["rows"])) if t["kind"] == "range" else [int(x) for x in t["rows"]]
        if c["samples_idx"] is not None:
            want = [int(x) for x in c["samples_idx"]]
            what = "the supplied index array"
        elif c["n_prior_samples"] is not None:
            want = list(range(c["n_prior_samples"]))
            what = "the first n_prior_samples rows"
        elif c["n_file"] is not None:
            want = list(range(c["n_file"]))
            what = "all rows the file holds now"
        else:
            continue
        probe("fanout_cover_checked")
        if rows != want and len(want) >= 1:
            v.append(Violation(PROPERTY, "C16.cover", "C16:pool-seam:fan-out-does-not-cover-%s" % what.replace(" ", "-"), "map %s (%s): asked for %s = %s, tasks cover %s" % (m["key"], c["worker"], what, want[:20], rows[:20])))
    # coverage at op level: the likelihood map of an mll op covers exactly range(N) in order
    for rec in dep.history:
        op = rec["op"]
        if op["op"] == "mll" and rec["raised"] is None:
            N = dep.world.libraries[op.get("lib", 0)].n
            for m in rec["maps"]:
                if any(t["kind"] == "unknown" for t in m["tasks"]):
                    continue
                rows = []
                for t in m["tasks"]:
                    rows += list(range(*t["rows"])) if t["kind"] == "range" else [int(x) for x in t["rows"]]
                if rows != list(range(N)):
                    v.append(Violation(PROPERTY, "C16.cover", "C16:pool-seam:mll-does-not-cover-all-rows-once-in-order", "N=%d rows=%s" % (N, rows[:30])))
        if op["op"] == "helper_batch_tasks":
            if rec["raised"] is not None:
                v.append(Violation(PROPERTY, "C16.raises", "C16:direct:raises", "%s raised %s" % (op, rec["raised"])))
                continue
            probe("direct_calls(plain random testing)")
            if op.get("start_idx", 0) > 0:
                probe("direct:start_idx>0")
            rel = "n_batches>n_tasks" if op["n_batches"] > op["n_tasks"] else ("n_batches==n_tasks" if op["n_batches"] == op["n_tasks"] else "n_batches<n_tasks")
            probe("direct:%s:%s" % (rel, "arr" if op.get("with_arr") else "range"))
            d = rec["direct"]
            v += check_tasks(d["tasks"], op["n_tasks"], op.get("start_idx", 0), d["arr"], "direct", extra_args=op.get("args") or [])
    return v, probes


def distinct(dep, program):
    out = set()
    for c in dep.batch_tasks_calls:
        out.add("bt:%d:%d:%d" % (c["n_tasks"], c["n_batches"], c["arr"] is not None))
    for rec in dep.history:
        op = rec["op"]
        if op["op"] == "helper_batch_tasks":
            out.add("btd:%d:%d:%d:%d" % (op["n_tasks"], op["n_batches"], op.get("start_idx", 0), bool(op.get("with_arr"))))
    return sorted(out)
