"""C03 (restricted) -- linear draws: attribution, count, order, units; (a, A) invariant under
schedules and histories.  The closed form of (a, A) is NOT claimed (pure function of inputs)."""
import numpy as np

from sim import oracles, recgen, tape
from sim.oracles import Violation

from . import c02, c14, common, sampling

PROPERTY = "C03"


def generate(seed, tier="quick"):
    rnd = tape.sub(seed, PROPERTY, "gen")
    prog = c02.generate(seed, tier, prop=PROPERTY, logprobs=0.0, all_logprobs=0.0)
    cfg = prog["config"]
    N = cfg["libraries"][0]["n"]
    for op in prog["ops"]:
        op["kw"]["n_linear_samples"] = rnd.choice([1, 2, 3, 5])
        op["joker"] = rnd.choice(["main", "main", "fresh"])
        if op["joker"] == "fresh":
            op["pool"] = rnd.choice([{"kind": "serial"}, {"kind": "sim", "size": rnd.randint(1, 6)}])
            op["rng_seed"] = rnd.getrandbits(30)
    oid = len(prog["ops"])
    if rnd.random() < 0.04 and len(prog["ops"]) >= 2:
        # the user sets up an MCMC run between two sampling calls (documented workflow on the same data object)
        prog["ops"].insert(1, {"id": 900, "op": "helper_setup_mcmc", "data": prog["ops"][0].get("data", 0), "lib": 0, "rng_seed": rnd.getrandbits(20), "role": "mcmc-setup"})
    if rnd.random() < 0.6:
        p, pname = sampling.gen_path(rnd)
        op = {"id": oid, "op": "iterative", "data": rnd.randrange(len(cfg["datasets"])), "lib": 0, "joker": "main", "role": "target"}
        op.update(p)
        sampling.use_alt_library(rnd, op, prog.get("alt_lib"))
        op["kw"] = sampling.gen_iterative_kw(rnd, N, pname)
        op["kw"]["init_batch_size"] = rnd.randint(1, N)
        op["kw"].pop("growth_factor", None)
        sampling.add_arg_types(rnd, op)
        prog["ops"].append(op)
    return prog


class AStar:
    """(a, A) for a single library row from a FRESH helper -- schedule/history-free by construction."""

    def __init__(self, L):
        self.L = L
        self.cache = {}

    def get(self, data_idx, lib_idx, row):
        key = (data_idx, lib_idx, int(row))
        if key not in self.cache:
            h = self.L.helper(data_idx)
            packed = self.L.packed(data_idx, lib_idx)
            rec = recgen.Record()
            g = recgen.make(12345, rec, label="astar")
            h.batch_get_posterior_samples(np.ascontiguousarray(packed[row : row + 1]), 1, g)
            d = [x for x in rec.draws if x["method"] == "multivariate_normal"]
            self.cache[key] = (d[0]["mean"], d[0]["cov"]) if d else None
        return self.cache[key]


def data_t_ref_mjd(data):
    if hasattr(data, "t_ref"):
        return None if data.t_ref is None else float(data.t_ref.tcb.mjd)
    ds = data.values() if hasattr(data, "values") else data
    return float(min(d.t.tcb.mjd.min() for d in ds))


def judge_linear(dep, rec, info, L, AS, probes):
    v = []
    A = info["A"]
    op = rec["op"]
    sig = "C03:%s:%s" % (A.kind, A.path)

    def probe(k, n=1):
        probes[k] = probes.get(k, 0) + n

    if rec["raised"] is not None or not info.get("judged"):
        return v
    out = info["out"]
    prior = dep.program["config"]["prior"]
    rows = info["expected_rows"]
    nl = A.nl
    names = sampling._linear_names(prior)
    rvu = sampling.data_unit(dep, op)
    un, vu = sampling.expected_units(prior, rvu)
    for i in range(1, prior["poly_trend"]):
        un["v%d" % i] = None  # checked through astropy below
    # metadata
    exp_tref = data_t_ref_mjd(dep.world.datasets[op.get("data", 0)])
    if (out["t_ref_mjd"] is None) != (exp_tref is None) or (exp_tref is not None and abs(out["t_ref_mjd"] - exp_tref) > 1e-9):
        v.append(Violation(PROPERTY, "C03.meta", sig + ":t_ref-differs-from-data", "t_ref %s vs data %s" % (out["t_ref_mjd"], exp_tref)))
    if out["poly_trend"] != prior["poly_trend"] or out["n_offsets"] != prior["n_offsets"]:
        v.append(Violation(PROPERTY, "C03.meta", sig + ":poly_trend-or-n_offsets-differs", "%s/%s vs %s/%s" % (out["poly_trend"], out["n_offsets"], prior["poly_trend"], prior["n_offsets"])))
    # column order: nonlinear then design-matrix order
    want_order = sampling.NONLIN + names
    got_order = [n for n in out["names"] if n not in ("ln_prior", "ln_likelihood")]
    if got_order != want_order:
        v.append(Violation(PROPERTY, "C03.order", sig + ":columns-not-in-design-matrix-order", "%s vs %s" % (got_order, want_order)))
        return v
    import astropy.units as u

    vunit = u.Unit(rvu)
    for j, n in enumerate(names):
        if n.startswith("v") and n != "v0":
            want = vunit / u.day ** int(n[1:])
        else:
            want = vunit
        if u.Unit(out["cols"][n]["unit"]) != want:
            v.append(Violation(PROPERTY, "C03.units", sig + ":unit-of-%s" % n, "%s vs %s" % (out["cols"][n]["unit"], want)))
    # draws: group by generator, order by task
    mv = A.mvn
    if A.path == "in_memory":
        bad = [d["gen"] for d in mv if not d["gen"].startswith("parent")]
        ordered = [d for d in mv if d["gen"].startswith("parent")]
        if bad:
            v.append(Violation(PROPERTY, "C03.source", sig + ":linear-draws-not-from-sampler-generator", str(bad[:5])))
    else:
        post = A.post_maps
        if not post:
            probe("observation_lost:posterior-map")
            return v
        key = post[-1]["key"]
        if any(t["kind"] == "unknown" for t in post[-1]["tasks"]):
            probe("observation_lost:task-layout-unknown")
            return v
        ordered = []
        task_rows = []
        for i, t in enumerate(post[-1]["tasks"]):
            lab = "child:%s.%d" % (key, i)
            ds = [d for d in mv if d["gen"] == lab]
            ordered += ds
            r = list(range(*t["rows"])) if t["kind"] == "range" else [int(x) for x in t["rows"]]
            task_rows += r
            if len(ds) != len(r):
                probe("observation_lost:draw-count-per-task")
        other = [d["gen"] for d in mv if not d["gen"].startswith("child:%s." % key)]
        if other:
            v.append(Violation(PROPERTY, "C03.source", sig + ":linear-draws-from-a-generator-that-is-not-the-task's-own", str(other[:5])))
        if task_rows != list(rows):
            v.append(Violation(PROPERTY, "C03.task-rows", sig + ":posterior-stage-rows-differ-from-accepted-rows", "%s vs %s" % (task_rows[:20], list(rows)[:20])))
            return v
    if len(ordered) == 0 and len(rows) > 0:
        v.append(Violation(PROPERTY, "C03.source", sig + ":no-linear-draw-recorded-on-the-given-generators", "%d accepted rows, 0 multivariate_normal draws seen" % len(rows)))
        return v
    if len(ordered) != len(rows):
        probe("observation_lost:draw-count")
        return v
    probe("attributed_ops")
    lin = np.stack([np.asarray(out["cols"][n]["v"], dtype=float) for n in names], axis=1) if out["n"] else np.zeros((0, len(names)))
    mode = sampling.tol_mode(dep, A)
    for j, (d, row) in enumerate(zip(ordered, rows)):
        if d.get("size") != nl:
            v.append(Violation(PROPERTY, "C03.count", sig + ":draw-size-differs-from-n_linear_samples", "draw size %s vs n_linear_samples %d" % (d.get("size"), nl)))
            break
        block = np.asarray(d["result"], dtype=float).reshape(nl, -1)
        got = lin[j * nl : (j + 1) * nl]
        if not oracles.same_values(got, block):
            v.append(
                Violation(
                    PROPERTY,
                    "C03.attribution",
                    sig + ":linear-columns-differ-from-the-draw-made-for-that-sample",
                    "accepted #%d (library row %d): %s" % (j, row, oracles.first_diff(got, block)),
                )
            )
            break
        ref = AS.get(op.get("data", 0), op.get("lib", 0), row)
        if ref is None:
            continue
        probe("aA_compared")
        ok = (oracles.same_values(d["mean"], ref[0]) and oracles.same_values(d["cov"], ref[1])) if mode == "exact" else (
            np.allclose(d["mean"], ref[0], rtol=1e-6, atol=1e-9 * (1 + np.max(np.abs(ref[0])))) and np.allclose(d["cov"], ref[1], rtol=1e-6, atol=1e-9 * (1 + np.max(np.abs(ref[1]))))
        )
        if not ok:
            v.append(
                Violation(
                    PROPERTY,
                    "C03.aA-invariance",
                    sig + ":(a,A)-depends-on-schedule-or-history",
                    "library row %d: mean %s ; cov %s" % (row, oracles.first_diff(d["mean"], ref[0]), oracles.first_diff(d["cov"], ref[1])),
                )
            )
            break
    return v


def evaluate(dep, program):
    probes = {}
    v = []
    L = oracles.LStar(dep.world)
    AS = AStar(L)
    for rec in dep.history:
        k = rec["op"]["op"]
        scratch = {}
        if k == "rejection":
            vv, info = c02.judge_rejection(dep, rec, L, "C03", scratch)
        elif k == "iterative":
            vv, info = c14.judge_iterative(dep, rec, L, "C03", scratch)
        else:
            continue
        if sampling.failed_as_injected(rec):
            probes["failed_op_in_history(injected pool fault, raised)"] = probes.get("failed_op_in_history(injected pool fault, raised)", 0) + 1
        # from the C02/C14 judgement keep only what C03 itself states: count, units, unchanged copy
        # ("evaluated-values": the batch handed to the kernel -- whose nonlinear part is copied into every emitted row --
        # does not hold the library's values: the emitted copy of the nonlinear parameters is not unchanged)
        v += [x for x in vv if x["oracle"] in ("C03.count", "C03.units", "C03.rows-unaltered", "C03.columns", "C03.evaluated-values")]
        v += judge_linear(dep, rec, info, L, AS, probes)
        for kk in ("judged_ops", "path:file", "path:cache", "path:in_memory"):
            if kk in scratch:
                probes[kk] = probes.get(kk, 0) + scratch[kk]
    # "n_linear_samples INDEPENDENT draws": no two tasks may share a stream, no draw block may repeat
    fps = {}
    for pl in dep.pools:
        for m in getattr(pl, "map_calls", []):
            for i, t in enumerate(m["tasks"]):
                fp = t.get("fp")
                if fp is None:
                    continue
                if t.get("is_parent"):
                    v.append(Violation(PROPERTY, "C03.independence", "C03:child-generators:task-carries-the-sampler's-own-generator", "map %s task %d" % (m["key"], i)))
                if fp in fps:
                    v.append(Violation(PROPERTY, "C03.independence", "C03:child-generators:same-stream-given-to-two-tasks", "map %s task %d starts in the state of %s" % (m["key"], i, fps[fp])))
                fps.setdefault(fp, "%s task %d" % (m["key"], i))
    seen = {}
    for d in dep.record.draws:
        if d["method"] != "multivariate_normal" or d["gen"] == "astar":
            continue
        k2 = tape.digest_obj(np.asarray(d["result"]))
        if k2 in seen:
            v.append(Violation(PROPERTY, "C03.independence", "C03:linear-draws:identical-draw-block-repeated", "draw on %s equals draw on %s" % (d["gen"], seen[k2])))
            break
        seen[k2] = d["gen"]
    probes["draw_blocks_checked_for_repeats"] = len(seen)
    for j_, why_ in dep.world.data_modified_in_place():
        v.append(Violation(PROPERTY, "C03.input-modified", "C03:data-object-modified-in-place-by-a-call", "data set %d: %s; the covariance used for later draws is no longer the user's" % (j_, why_)))
    if any(r["op"]["op"] == "helper_setup_mcmc" and r["raised"] is None for r in dep.history):
        probes["setup_mcmc_in_history"] = 1
    return v, probes
