"""C12 -- sample files round-trip; appends concatenate; refused appends leave the file alone; batch reads
return the rows asked for.  Stateful write/overwrite/append/read histories against an in-memory
table model, with refused-operation and storage-open faults."""
import copy
import hashlib
import os
import shutil
import tempfile
import traceback

import numpy as np

from sim import inject, recgen, tape
from sim.oracles import Violation, close_ulp, first_diff, same_values

PROPERTY = "C12"

UNIT_CHOICES = {
    "P": ["d", "d", "yr", "h"],
    "e": [""],
    "omega": ["rad", "deg"],
    "M0": ["rad", "deg"],
    "s": ["km/s", "m/s"],
    "K": ["km/s", "m/s"],
    "v0": ["km/s", "m/s"],
    "v1": ["km/(s d)", "m/(s d)"],
    "dv0_1": ["km/s", "m/s"],
    "ln_prior": [""],
    "ln_likelihood": [""],
}
ALT_UNIT = {"P": ["d", "yr", "h"], "omega": ["rad", "deg"], "M0": ["rad", "deg"], "s": ["km/s", "m/s"], "K": ["km/s", "m/s"], "v0": ["km/s", "m/s"], "v1": ["km/(s d)", "m/(s d)"], "dv0_1": ["km/s", "m/s"]}


def gen_table(rnd, poly=None, noff=None, n=None):
    poly = poly if poly is not None else rnd.choice([1, 1, 2])
    noff = noff if noff is not None else rnd.choice([0, 0, 1])
    pool = ["P", "e", "omega", "M0", "s", "K", "v0", "ln_prior", "ln_likelihood"]
    if poly >= 2:
        pool.append("v1")
    if noff >= 1:
        pool.append("dv0_1")
    c = rnd.random()
    if c < 0.4:
        cols = ["P", "e", "omega", "M0", "s"]
    elif c < 0.7:
        cols = [x for x in pool if x not in ("ln_likelihood",)]
    else:
        k = rnd.randint(1, len(pool))
        cols = rnd.sample(pool, k)
    if rnd.random() < 0.3:
        rnd.shuffle(cols)
    return {
        # (0 rows happens: a selection that kept nothing, zero accepted samples)
        "n": n if n is not None else rnd.choice([0, 1, 1, 2, 3, 5, 8, 13, rnd.randint(1, 40), rnd.randint(1, 40)]),
        "cols": cols,
        "units": {k: rnd.choice(UNIT_CHOICES[k]) for k in cols},
        "dtype": "f4" if rnd.random() < 0.15 else "f8",
        "t_ref": rnd.choice([None, 55555.5, 58123.25]),
        "t_ref_scale": rnd.choice(["tcb", "tcb", "utc", "tdb"]),  # the reference epoch is an instant, whatever scale the user's Time has
        "poly_trend": poly,
        "n_offsets": noff,
        "gen_seed": rnd.getrandbits(40),
    }


def _maybe_extra_meta(rnd, t):
    """The table that is going to be REFUSED (other column set) may carry a metadata keyword the file does not have
    (JokerSamples(..., run_id=...): 'additional keyword arguments are stored as metadata'): refusing it must still
    leave the file byte-identical."""
    if not t.get("extra_meta") and rnd.random() < 0.5:
        t["extra_meta"] = {rnd.choice(["run_id", "observer", "note"]): "x%d" % rnd.randrange(1000)}


def variant(rnd, base, kind):
    t = copy.deepcopy(base)
    t["gen_seed"] = rnd.getrandbits(40)
    t["n"] = rnd.choice([0, 1, 2, 3, 5, rnd.randint(1, 20), rnd.randint(1, 20)])
    t["variant"] = kind
    if kind == "compatible":
        return t
    if kind == "extra-col":
        cand = [c for c in UNIT_CHOICES if c not in t["cols"] and (c != "v1" or t["poly_trend"] >= 2) and (c != "dv0_1" or t["n_offsets"] >= 1)]
        if not cand:
            return None
        c = rnd.choice(cand)
        t["cols"] = t["cols"] + [c]
        t["units"][c] = rnd.choice(UNIT_CHOICES[c])
        _maybe_extra_meta(rnd, t)
        return t
    if kind == "missing-col":
        if len(t["cols"]) < 2:
            return None
        t["cols"] = t["cols"][:-1]
        _maybe_extra_meta(rnd, t)
        return t
    if kind == "reorder":
        if len(t["cols"]) < 2:
            return None
        c = list(t["cols"])
        i = rnd.randrange(len(c) - 1)
        c[i], c[i + 1] = c[i + 1], c[i]
        t["cols"] = c
        return t
    if kind == "unit":
        cand = [c for c in t["cols"] if c in ALT_UNIT]
        if not cand:
            return None
        c = rnd.choice(cand)
        alts = [u for u in ALT_UNIT[c] if u != t["units"][c]]
        t["units"][c] = rnd.choice(alts)
        return t
    if kind == "dtype":
        t["dtype"] = "f4" if t["dtype"] == "f8" else "f8"
        return t
    if kind == "tref-conflict":
        t["t_ref"] = 50000.125 if t["t_ref"] != 50000.125 else 51000.5
        if base["t_ref"] is None:
            return None
        return t
    if kind == "tref-none":
        if base["t_ref"] is None:
            return None
        t["t_ref"] = None
        return t
    if kind == "polytrend-conflict":
        t["poly_trend"] = 3 if t["poly_trend"] != 3 else 2
        return t
    return None


MUST_REFUSE = ("extra-col", "missing-col", "tref-conflict", "polytrend-conflict")
MAY_REFUSE = ("reorder", "unit", "dtype")


def generate(seed, tier="quick"):
    rnd = tape.sub(seed, PROPERTY, "gen")
    paths = rnd.sample(["a.hdf5", "b.h5", "c.hdf5", "d.fits"], rnd.randint(1, 3))
    tables = []
    ops = []
    base_of = {}
    n_ops = rnd.randint(2, 10)
    for oid in range(n_ops):
        p = rnd.choice(paths)
        c = rnd.random()
        fits = p.endswith(".fits")
        if p not in base_of or c < 0.18:
            if tables and rnd.random() < 0.35:
                # the SAME JokerSamples object written again (other path, or after a refused write):
                # a write must not change the object it writes
                ti = rnd.randrange(len(tables))
                t = tables[ti]
            else:
                t = gen_table(rnd)
                tables.append(t)
                ti = len(tables) - 1
            ov = rnd.random() < 0.7
            ops.append({"id": oid, "op": "write", "path": p, "table": ti, "overwrite": ov})
            base_of.setdefault(p, t)
            if ov:
                base_of[p] = t
            continue
        base = base_of[p]
        if c < 0.24 and tables:
            # the user edits a column of a live JokerSamples object (same column set and length), then writes it again
            ti = rnd.randrange(len(tables))
            t = tables[ti]
            col = rnd.choice(t["cols"])
            ops.append({"id": oid, "op": "mutate", "path": p, "table": ti, "col": col, "unit": rnd.choice(UNIT_CHOICES[col]), "gen_seed": rnd.getrandbits(40)})
            ops.append({"id": oid + 1000, "op": "write", "path": p, "table": ti, "overwrite": True})
            base_of[p] = t
            continue
        if c < 0.45:
            kind = rnd.choice(["compatible", "compatible", "compatible", "extra-col", "missing-col", "reorder", "unit", "dtype", "tref-conflict", "tref-none", "polytrend-conflict"])
            t = variant(rnd, base, kind)
            if t is None:
                t = variant(rnd, base, "compatible")
            tables.append(t)
            ops.append({"id": oid, "op": "append", "path": p, "table": len(tables) - 1, "variant": t["variant"]})
        elif c < 0.50:
            t = None
            if rnd.random() < 0.5:
                # the replacement has the SAME layout (columns, dtypes, units) as what the file holds and differs only in
                # its metadata (reference epoch) or not at all
                t = variant(rnd, base, rnd.choice(["tref-conflict", "tref-conflict", "compatible", "polytrend-conflict"]))
            if t is None:
                t = gen_table(rnd)
            tables.append(t)
            ops.append({"id": oid, "op": "append_overwrite", "path": p, "table": len(tables) - 1})
            base_of[p] = ("maybe", base, t)
            base_of[p] = t if False else base_of[p]
            # the model decides at run time; for generation keep using the old base
            base_of[p] = base
        elif c < 0.54 and not fits:
            # the file is USED as a prior-sample library by the sampler in between (a sampler call must leave the
            # file closed and untouched: later appends / rewrites still have to work)
            ops.append({"id": oid, "op": "sample", "path": p, "return_logprobs": rnd.random() < 0.6})
            if rnd.random() < 0.6:
                # ... and the sampler's OUTPUT is itself written, later outputs appended to it (outputs of the same
                # data and prior are compatible tables: appending must give their concatenation)
                ops[-1]["out"] = "out.hdf5"
                ops[-1]["out_mode"] = rnd.choice(["write", "append", "append"])
                ops[-1]["n_prior_frac"] = rnd.choice([None, rnd.random()])
                if rnd.random() < 0.6:
                    o2 = dict(ops[-1])
                    o2["id"] = oid + 3000
                    o2["out_mode"] = "append"
                    o2["n_prior_frac"] = rnd.choice([None, rnd.random()])
                    if rnd.random() < 0.8:
                        o2["return_logprobs"] = ops[-1]["return_logprobs"]
                    ops.append(o2)
                if rnd.random() < 0.5:
                    ops.append({"id": oid + 2000, "op": "read", "path": "out.hdf5", "via": "name"})
        elif c < 0.70:
            ops.append({"id": oid, "op": "read", "path": p, "via": "h5py" if (not fits and rnd.random() < 0.3) else "name"})
        else:
            if fits:
                ops.append({"id": oid, "op": "read", "path": p, "via": "name"})
                continue
            cols = rnd.sample(base["cols"], rnd.randint(1, len(base["cols"])))
            sel_kind = rnd.choice(["tuple", "slice", "idx", "idx", "int"])
            big = 45
            if sel_kind == "tuple":
                a = rnd.randint(0, 10)
                sel = {"kind": "tuple", "a": a, "b": a + rnd.randint(0, big)}
            elif sel_kind == "slice":
                sel = {"kind": "slice", "a": rnd.choice([None, 0, rnd.randint(0, 10)]), "b": rnd.choice([None, rnd.randint(0, big)]), "step": rnd.choice([None, 1, 2, 3])}
            elif sel_kind == "idx":
                sel = {"kind": "idx", "frac": [rnd.random() for _ in range(rnd.randint(1, 12))]}
            else:
                sel = {"kind": "int", "frac": rnd.random(), "rng_seed": rnd.getrandbits(30)}
            units = None
            if rnd.random() < 0.6:
                units = {c2: rnd.choice(ALT_UNIT[c2]) for c2 in cols if c2 in ALT_UNIT and rnd.random() < 0.7}
            ops.append({"id": oid, "op": "read_batch", "path": p, "columns": cols, "selector": sel, "units": units})
        if rnd.random() < 0.06:
            ops[-1]["fault"] = {"storage_k": rnd.randint(1, 3)}
    return {"format": 1, "property": PROPERTY, "seed": seed, "config": {"tables": tables, "paths": paths}, "ops": ops, "schedule": None, "faults": []}


# ---------------------------------------------------------------------------------------------


_TCB = {}


def tref_tcb(spec):
    """The reference epoch of a table spec as a TCB MJD (the instant; what read-back is compared with)."""
    if spec.get("t_ref") is None:
        return None
    if spec.get("from_sampler") or spec.get("t_ref_scale", "tcb") == "tcb":
        return float(spec["t_ref"])
    key = (spec["t_ref"], spec["t_ref_scale"])
    if key not in _TCB:
        from astropy.time import Time

        _TCB[key] = float(Time(spec["t_ref"], format="mjd", scale=spec["t_ref_scale"]).tcb.mjd)
    return _TCB[key]


def build_table(spec):
    import astropy.units as u
    from astropy.time import Time

    import thejoker as tj

    g = tape.np_sub(spec["gen_seed"], "table")
    dt = np.float32 if spec["dtype"] == "f4" else np.float64
    t_ref = None if spec["t_ref"] is None else Time(spec["t_ref"], format="mjd", scale=spec.get("t_ref_scale", "tcb"))
    s = tj.JokerSamples(t_ref=t_ref, poly_trend=spec["poly_trend"], n_offsets=spec["n_offsets"], **(spec.get("extra_meta") or {}))
    data = {}
    for c in spec["cols"]:
        if c == "e":
            v = g.uniform(0, 0.95, spec["n"])
        elif c.startswith("ln_"):
            v = -g.uniform(0, 50, spec["n"])
        else:
            v = g.uniform(0.5, 400.0, spec["n"])
        v = v.astype(dt)
        data[c] = v
        s[c] = u.Quantity(v, u.Unit(spec["units"][c]))
    return s, data


class FileModel:
    def __init__(self, spec, data):
        self.cols = list(spec["cols"])
        self.units = dict(spec["units"])
        self.dtype = spec["dtype"]
        self.t_ref = tref_tcb(spec)
        self.poly_trend = spec["poly_trend"]
        self.n_offsets = spec["n_offsets"]
        self.data = {k: np.array(v) for k, v in data.items()}

    @property
    def n(self):
        return len(self.data[self.cols[0]])

    def append(self, spec, data):
        import astropy.units as u

        for c in self.cols:
            v = data[c]
            if spec["units"][c] != self.units[c]:
                v = (np.asarray(v, dtype=np.float64) * u.Unit(spec["units"][c])).to_value(u.Unit(self.units[c]))
            self.data[c] = np.concatenate([self.data[c], np.asarray(v).astype(self.data[c].dtype)])  # the file's column type


def classify(m, t):
    """Classify an append of table spec `t` onto file model `m` -- at RUN time, against what the file
    really holds now (an earlier op may have replaced it)."""
    must = []
    may = []
    unspec = []
    if set(t["cols"]) != set(m.cols):
        must.append("extra-col" if set(t["cols"]) > set(m.cols) else ("missing-col" if set(t["cols"]) < set(m.cols) else "other-cols"))
    if t["poly_trend"] != m.poly_trend or t["n_offsets"] != m.n_offsets:
        must.append("polytrend-conflict")
    if t["t_ref"] is not None and m.t_ref is not None and abs(tref_tcb(t) - m.t_ref) > 1e-9:
        must.append("tref-conflict")
    if (t["t_ref"] is None) != (m.t_ref is None):
        unspec.append("tref-none")
    if not must:
        if list(t["cols"]) != list(m.cols):
            may.append("reorder")
        if any(t["units"][c] != m.units[c] for c in m.cols):
            may.append("unit")
        t_dt = t.get("col_dtypes") or {c: ("float32" if t["dtype"] == "f4" else "float64") for c in t["cols"]}
        if any(str(m.data[c].dtype) != t_dt.get(c) for c in m.cols if c in t_dt):
            may.append("dtype")
    if must:
        return "must", must[0]
    if may:
        return "may", may[0]
    if unspec:
        return "unspecified", unspec[0]
    return "compatible", "compatible"


def spec_from_samples(smp):
    """Table spec + column data of a live JokerSamples (used for sampler OUTPUTS written / appended by the history)."""
    cols = list(smp.par_names)
    units = {}
    data = {}
    for c in cols:
        col = smp.tbl[c]
        units[c] = str(getattr(col, "unit", "") or "")
        data[c] = np.array(getattr(col, "value", col))
    dts = {str(v.dtype) for v in data.values()}
    tr = smp.t_ref
    spec = {"n": len(smp), "cols": cols, "units": units, "dtype": "f4" if dts == {"float32"} else "f8", "t_ref": None if tr is None else float(tr.tcb.mjd),
            "poly_trend": smp.poly_trend, "n_offsets": smp.n_offsets, "gen_seed": 0, "from_sampler": True,
            # a sampler output can mix float widths (float64 draws next to a float32 ln_prior read from a float32 library)
            "col_dtypes": {c: str(v.dtype) for c, v in data.items()}}
    return spec, data


def _sha(path):
    if not os.path.exists(path):
        return None
    h = hashlib.sha256()
    with open(path, "rb") as f:
        h.update(f.read())
    return h.hexdigest()


def unit_eq(a, b):
    import astropy.units as u

    try:
        return u.Unit(a) == u.Unit(b)
    except Exception:  # noqa: BLE001
        return False


def compare_read(sig, got, model, exact_order=True):
    """got: JokerSamples read back; model: FileModel."""
    v = []
    names = list(got.par_names)
    if names != model.cols:
        v.append(Violation(PROPERTY, "C12.columns", sig + ":columns-differ", "read %s, written %s" % (names, model.cols)))
        return v
    if len(got) != model.n:
        v.append(Violation(PROPERTY, "C12.rows", sig + ":row-count-differs", "read %d rows, model has %d" % (len(got), model.n)))
        return v
    for c in model.cols:
        col = got.tbl[c]
        val = np.array(getattr(col, "value", col))
        unit = str(getattr(col, "unit", "") or "")
        if not unit_eq(unit, model.units[c]):
            v.append(Violation(PROPERTY, "C12.units", sig + ":unit-differs", "column %s: read %r, written %r" % (c, unit, model.units[c])))
        want = model.data[c]
        if (val.dtype.kind, val.dtype.itemsize) != (want.dtype.kind, want.dtype.itemsize):  # byte order is not a value property (FITS is big-endian)
            v.append(Violation(PROPERTY, "C12.dtype", sig + ":dtype-differs", "column %s: read %s, written %s" % (c, val.dtype, want.dtype)))
        if not same_values(val, want):
            v.append(Violation(PROPERTY, "C12.values", sig + ":values-differ", "column %s: %s" % (c, first_diff(val, want))))
            break
    tr = got.t_ref
    tr_m = None if tr is None else float(tr.tcb.mjd)
    if (tr_m is None) != (model.t_ref is None) or (tr_m is not None and abs(tr_m - model.t_ref) > 1e-9):
        v.append(Violation(PROPERTY, "C12.meta", sig + ":t_ref-differs", "read %s, written %s" % (tr_m, model.t_ref)))
    if got.poly_trend != model.poly_trend or got.n_offsets != model.n_offsets:
        v.append(Violation(PROPERTY, "C12.meta", sig + ":poly_trend-or-n_offsets-differs", "read %s/%s, written %s/%s" % (got.poly_trend, got.n_offsets, model.poly_trend, model.n_offsets)))
    return v


def run(program):
    import warnings

    warnings.filterwarnings("ignore")
    res = {"seed": program.get("seed"), "violations": [], "probes": {}, "harness_error": None, "faults_fired": {}}
    probes = res["probes"]

    def probe(k, n=1):
        probes[k] = probes.get(k, 0) + n

    base = "/dev/shm" if os.path.isdir("/dev/shm") else tempfile.gettempdir()
    workdir = tempfile.mkdtemp(prefix="verif-run-%d-c12-" % os.getpid(), dir=base)
    log = tape.EventLog()
    v = []
    try:
        import astropy.units as u
        import h5py

        import thejoker as tj
        from thejoker.utils import read_batch

        inj = inject.get()
        inj.install()
        sfilt = inject.storage_filter()
        tables = copy.deepcopy(program["config"]["tables"])  # run-time copy: a `mutate` op edits the spec of a live object
        built = {}
        sampler = {}
        model = {}  # path -> None | FileModel | "unknown"
        distinct = set()
        for op in program["ops"]:
            path = os.path.join(workdir, op["path"])
            kind = op["op"]
            fits = path.endswith(".fits")
            m = model.get(op["path"])
            sha0 = _sha(path)
            sig = "C12:%s:%s" % (kind, "fits" if fits else "hdf5")
            log.add("op-begin", kind, {k: x for k, x in op.items() if k != "id"})
            distinct.add("%s:%s:%s:%s" % (kind, op.get("variant", op.get("via", (op.get("selector") or {}).get("kind", ""))), "fits" if fits else "hdf5", "exists" if m is not None else "missing"))

            selbox = {}

            def do():
                if kind in ("write", "append", "append_overwrite"):
                    ti = op["table"]
                    if ti not in built:
                        built[ti] = build_table(tables[ti])
                    s, _ = built[ti]
                    if kind == "write":
                        return s.write(path, overwrite=op.get("overwrite", False))
                    if kind == "append":
                        return s.write(path, append=True)
                    return s.write(path, append=True, overwrite=True)
                if kind == "read":
                    if op.get("via") == "h5py":
                        with h5py.File(path, "r") as f:
                            return tj.JokerSamples.read(f)
                    return tj.JokerSamples.read(path)
                if kind == "read_batch":
                    sel = op["selector"]
                    n = m.n if isinstance(m, FileModel) else 10
                    if sel["kind"] == "tuple":
                        so = (sel["a"], sel["b"])
                    elif sel["kind"] == "slice":
                        so = slice(sel["a"], sel["b"], sel["step"])
                    elif sel["kind"] == "idx":
                        so = np.array([int(f * n) % max(n, 1) for f in sel["frac"]], dtype=int)
                    else:
                        so = max(1, int(sel["frac"] * n)) if n else 1
                    selbox["so"] = so
                    uu = None if op.get("units") is None else {k: u.Unit(x) for k, x in op["units"].items()}
                    g = recgen.make(sel.get("rng_seed", 0), rec) if sel["kind"] == "int" else None
                    return read_batch(path, op["columns"], so, units=uu, rng=g)
                raise ValueError(kind)

            if kind == "sample":
                need = ["P", "e", "omega", "M0", "s"] + (["ln_prior"] if op.get("return_logprobs") else [])
                if not isinstance(m, FileModel) or any(c not in m.cols for c in need):
                    probe("sample_op_skipped(file lacks the nonlinear columns)")
                    log.add("op-end", kind, None, "skipped")
                    continue
                if "joker" not in sampler:
                    import astropy.units as uu
                    from astropy.time import Time

                    from sim import world

                    pr = world.get_prior(world.PRIOR_PALETTE[0])
                    gg = tape.np_sub(7, "c12-data")
                    tt = Time(58000.0 + np.sort(gg.uniform(0, 200, 5)), format="mjd", scale="tcb")
                    sampler["data"] = tj.RVData(t=tt, rv=gg.normal(0, 5, 5) * uu.km / uu.s, rv_err=np.full(5, 50.0) * uu.km / uu.s)
                    sampler["joker"] = tj.TheJoker(pr, rng=np.random.default_rng(5))
                smp_out = None
                try:
                    kw_s = {}
                    if op.get("n_prior_frac") is not None:
                        kw_s["n_prior_samples"] = max(1, int(op["n_prior_frac"] * m.n))
                    smp_out = sampler["joker"].rejection_sample(sampler["data"], path, return_logprobs=bool(op.get("return_logprobs")), n_batches=1, max_posterior_samples=2, **kw_s)
                    outcome = "ok"
                except Exception as e:  # noqa: BLE001 - the outcome of sampling is not C12's business
                    outcome = type(e).__name__
                probe("sample_op:" + ("ok" if outcome == "ok" else "raised"))
                if _sha(path) != sha0:
                    v.append(Violation(PROPERTY, "C12.file-altered", sig + ":sampler-altered-the-library-file", str(op)))
                log.add("op-end", kind, None, outcome)
                if smp_out is not None and op.get("out") and type(smp_out).__name__ == "JokerSamples" and len(smp_out) > 0:
                    opath = os.path.join(workdir, op["out"])
                    om = model.get(op["out"])
                    ospec, odata = spec_from_samples(smp_out)
                    osha0 = _sha(opath)
                    mode = op.get("out_mode", "write")
                    try:
                        if mode == "write" or not isinstance(om, FileModel):
                            smp_out.write(opath, overwrite=True)
                            model[op["out"]] = FileModel(ospec, odata)
                            probe("sampler_output_written")
                        else:
                            cls, var = classify(om, ospec)
                            smp_out.write(opath, append=True)
                            if cls == "must":
                                v.append(Violation(PROPERTY, "C12.incompatible-accepted", "C12:append:hdf5:incompatible-append-accepted:" + var, "sampler output appended although %s differs" % var))
                                model[op["out"]] = "unknown"
                            else:
                                om.append(ospec, odata)
                                probe("sampler_output_appended")
                    except Exception as e:  # noqa: BLE001
                        if isinstance(om, FileModel) and mode != "write" and classify(om, ospec)[0] == "compatible":
                            v.append(Violation(PROPERTY, "C12.append", "C12:append:hdf5:compatible-append-of-sampler-output-refused:%s" % type(e).__name__,
                                               "two outputs of rejection_sample for the same data and prior (same columns, units, t_ref, poly_trend, n_offsets) could not be appended: %r" % (e,)))
                            if _sha(opath) != osha0:
                                model[op["out"]] = "unknown"
                        elif _sha(opath) != osha0:
                            model[op["out"]] = "unknown"
                    log.add("op-end", "sample-out", None, _sha(opath) != osha0)
                continue
            if kind == "mutate":
                ti = op["table"]
                if ti not in built:
                    built[ti] = build_table(tables[ti])
                sobj, data = built[ti]
                spec = tables[ti]
                g = tape.np_sub(op["gen_seed"], "mutate")
                dt = np.float32 if spec["dtype"] == "f4" else np.float64
                col = op["col"]
                newv = (g.uniform(0, 0.95, spec["n"]) if col == "e" else (-g.uniform(0, 50, spec["n"]) if col.startswith("ln_") else g.uniform(0.5, 400.0, spec["n"]))).astype(dt)
                sobj[col] = u.Quantity(newv, u.Unit(op["unit"]))
                data[col] = newv
                spec["units"][col] = op["unit"]
                probe("object_column_replaced_before_rewrite")
                log.add("op-end", kind, None, newv)
                continue
            rec = recgen.Record(log)
            fault = op.get("fault")
            fired = None
            if fault:
                out, err, fired = inj.run_with_fault(do, fault["storage_k"], lambda site: OSError(5, "SIMFAULT storage %s" % (site,)), sfilt)
                if fired is None:
                    probe("storage_fault_not_reached")
                else:
                    res["faults_fired"]["storage-open/read OSError"] = res["faults_fired"].get("storage-open/read OSError", 0) + 1
                    log.add("fault-fired", "storage", {"site": list(fired[0])})
            else:
                try:
                    out = do()
                    err = None
                except Exception as e:  # noqa: BLE001
                    out, err = None, e
            sha1 = _sha(path)
            raised = err is not None
            log.add("op-end", kind, None, {"raised": type(err).__name__ if raised else None, "changed": sha0 != sha1})
            tspec = tables[op["table"]] if "table" in op else None

            def must_be_identical(why):
                if sha0 != sha1:
                    v.append(Violation(PROPERTY, "C12.file-altered", sig + ":" + why + ":file-altered", "%s ; file sha %s -> %s ; error=%r" % (op, (sha0 or "")[:12], (sha1 or "")[:12], err)))
                    model[op["path"]] = "unknown"

            # ---------------- faults
            if fired is not None:
                probe("op_with_storage_fault")
                if not raised:
                    v.append(Violation(PROPERTY, "C12.fault-swallowed", sig + ":storage-fault-swallowed", "%s returned normally after OSError at %s" % (op, fired[0])))
                if kind in ("read", "read_batch"):
                    must_be_identical("failed-read")
                elif sha0 != sha1:
                    model[op["path"]] = "unknown"  # half-written file: the statement promises nothing
                    probe("write_failed_halfway:model-unknown")
                continue
            # ---------------- write
            if kind == "write":
                if fits and m is not None and not op.get("overwrite"):
                    if not raised:
                        v.append(Violation(PROPERTY, "C12.exists", sig + ":existing-file-overwritten-without-overwrite", str(op)))
                    must_be_identical("write-onto-existing")
                    probe("write_onto_existing_refused")
                elif m is not None and not op.get("overwrite"):
                    if not raised:
                        v.append(Violation(PROPERTY, "C12.exists", sig + ":existing-file-overwritten-without-overwrite", str(op)))
                        model[op["path"]] = "unknown"
                    must_be_identical("write-onto-existing")
                    probe("write_onto_existing_refused")
                else:
                    if raised:
                        v.append(Violation(PROPERTY, "C12.write", sig + ":write-raises:%s" % type(err).__name__, "%s raised %r" % (op, err)))
                        model[op["path"]] = "unknown" if sha1 is not None else None
                    else:
                        model[op["path"]] = FileModel(tspec, built[op["table"]][1])
                        probe("write_ok" + (":overwrite-existing" if m is not None else ""))
                continue
            if kind == "append":
                if fits:
                    if not raised:
                        v.append(Violation(PROPERTY, "C12.append", sig + ":fits-append-accepted", str(op)))
                    must_be_identical("fits-append")
                    continue
                if m is None:
                    if raised:
                        model[op["path"]] = "unknown" if sha1 is not None else None
                    else:
                        model[op["path"]] = FileModel(tspec, built[op["table"]][1])
                    probe("append_to_missing_file")
                    continue
                if m == "unknown":
                    continue
                cls, var = classify(m, tspec)
                if cls == "compatible":
                    if raised:
                        v.append(Violation(PROPERTY, "C12.append", sig + ":compatible-append-refused:%s" % type(err).__name__, "%s raised %r" % (op, err)))
                        must_be_identical("refused-append")
                    else:
                        m.append(tspec, built[op["table"]][1])
                        probe("append_ok")
                        if getattr(m, "_appended", False):
                            probe("append_after_append")
                        m._appended = True
                elif cls == "must":
                    probe("must_refuse:" + var)
                    if raised:
                        must_be_identical("refused-append")
                    else:
                        v.append(Violation(PROPERTY, "C12.incompatible-accepted", sig + ":incompatible-append-accepted:" + var, "%s was accepted; file holds %s, table has %s; file sha %s -> %s" % (op, m.cols, tspec["cols"], (sha0 or "")[:12], (sha1 or "")[:12])))
                        model[op["path"]] = "unknown"
                elif cls == "may":
                    probe("may_refuse:" + var + (":refused" if raised else ":accepted"))
                    if raised:
                        must_be_identical("refused-append")
                    else:
                        try:
                            if var == "dtype":
                                # accepted into a NARROWER float type: unless every value survives the cast exactly, what
                                # the file now holds is not "the concatenation of everything written"
                                data_new = built[op["table"]][1]
                                lossy = [c for c in m.cols if m.data[c].dtype == np.float32 and np.any(np.asarray(data_new[c]).astype(np.float32).astype(np.float64) != np.asarray(data_new[c], dtype=np.float64))]
                                if lossy:
                                    v.append(Violation(PROPERTY, "C12.append-lossy", sig + ":append-accepted-but-values-narrowed-to-the-file's-float-type", "%s: float64 values of column(s) %s were accepted into a float32 file" % (op, lossy)))
                            m.append(tspec, built[op["table"]][1])
                        except Exception:  # noqa: BLE001
                            model[op["path"]] = "unknown"
                else:  # unspecified (t_ref None on one side only)
                    probe("unspecified:" + var + (":refused" if raised else ":accepted"))
                    if raised:
                        must_be_identical("refused-append")
                    else:
                        m.append(tspec, built[op["table"]][1])
                continue
            if kind == "append_overwrite":
                if fits:
                    if not raised:
                        v.append(Violation(PROPERTY, "C12.append", sig + ":fits-append-accepted", str(op)))
                    must_be_identical("fits-append")
                    continue
                probe("append+overwrite" + (":raised" if raised else ":accepted"))
                if raised:
                    if sha0 != sha1 and m is not None:
                        v.append(Violation(PROPERTY, "C12.file-altered", sig + ":raises-after-altering-the-file", "%s raised %r ; file sha %s -> %s" % (op, err, (sha0 or "")[:12], (sha1 or "")[:12])))
                        model[op["path"]] = "unknown"
                    elif sha0 != sha1:
                        model[op["path"]] = "unknown"
                else:
                    model[op["path"]] = FileModel(tspec, built[op["table"]][1])
                continue
            # ---------------- read-only ops never alter the file
            if sha0 != sha1:
                v.append(Violation(PROPERTY, "C12.file-altered", sig + ":read-altered-the-file", str(op)))
            if m is None:
                if not raised:
                    v.append(Violation(PROPERTY, "C12.missing", sig + ":read-of-missing-file-returned", str(op)))
                probe("read_missing_file")
                continue
            if m == "unknown":
                continue
            if kind == "read":
                probe("read:" + op.get("via", "name") + (":fits" if fits else ""))
                if raised:
                    v.append(Violation(PROPERTY, "C12.read", sig + ":read-raises:%s" % type(err).__name__, "%s raised %r (file holds cols %s)" % (op, err, m.cols)))
                    continue
                v += compare_read(sig + ":" + op.get("via", "name"), out, m)
                continue
            if kind == "read_batch":
                sel = op["selector"]
                so = selbox.get("so")
                cols = op["columns"]
                missing = [c for c in cols if c not in m.cols]
                if missing:
                    if not raised:
                        v.append(Violation(PROPERTY, "C12.read_batch", sig + ":missing-column-read", "%s" % missing))
                    continue
                n = m.n
                if sel["kind"] == "tuple":
                    rows = list(range(n))[slice(*so)]
                elif sel["kind"] == "slice":
                    rows = list(range(n))[so]
                elif sel["kind"] == "idx":
                    rows = [int(x) for x in so]
                    if n == 0:
                        probe("read_batch_idx_on_empty_table:not-judged")
                        continue
                else:
                    rows = None
                probe("read_batch:" + sel["kind"])
                if sel["kind"] == "int":
                    size = so
                    if size > n:
                        continue  # cannot take more rows than exist without repeats: raising is right
                    if raised:
                        v.append(Violation(PROPERTY, "C12.read_batch", sig + ":random-subset-raises:%s" % type(err).__name__, "%s raised %r" % (op, err)))
                        continue
                    ch = [d for d in rec.draws if d["method"] in ("choice", "permutation")]
                    if not ch:
                        v.append(Violation(PROPERTY, "C12.read_batch", sig + ":random-subset-not-drawn-from-given-generator", str(op)))
                        continue
                    rows = [int(x) for x in np.asarray(ch[0]["result"]).ravel()][:size]
                    if len(set(rows)) != len(rows) or len(rows) != size:
                        v.append(Violation(PROPERTY, "C12.read_batch", sig + ":random-subset-has-repeats-or-wrong-size", "rows %s size %d" % (rows, size)))
                        continue
                if raised:
                    v.append(Violation(PROPERTY, "C12.read_batch", sig + ":%s-raises:%s" % (sel["kind"], type(err).__name__), "%s (sel %r, n=%d) raised %r" % (op, so, n, err)))
                    continue
                arr = np.asarray(out)
                if arr.shape != (len(rows), len(cols)):
                    v.append(Violation(PROPERTY, "C12.read_batch", sig + ":%s-wrong-shape" % sel["kind"], "shape %s, expected (%d, %d) for selector %r n=%d" % (arr.shape, len(rows), len(cols), so, n)))
                    continue
                if len(set(rows)) < len(rows):
                    probe("read_batch_idx_with_repeats")
                if rows != sorted(rows):
                    probe("read_batch_idx_unsorted")
                for j, c in enumerate(cols):
                    want = np.asarray(m.data[c], dtype=np.float64)[rows] if len(rows) else np.zeros(0)
                    if op.get("units") and c in op["units"]:
                        want = (want * u.Unit(m.units[c])).to_value(u.Unit(op["units"][c]))
                    ok = close_ulp(arr[:, j], want, rel=2e-6) if (m.dtype == "f4" or m.data[c].dtype == np.float32) else close_ulp(arr[:, j], want, ulps=4)
                    if not ok:
                        v.append(
                            Violation(
                                PROPERTY, "C12.read_batch", sig + ":%s-returns-wrong-rows-or-values" % sel["kind"],
                                "column %s selector %r units %s: %s" % (c, so, (op.get("units") or {}).get(c), first_diff(arr[:, j], want)),
                            )
                        )
                        break
        res["violations"] = v
        res["distinct"] = sorted(distinct)
        res["n_ops"] = len(program["ops"])
        res["steps"] = log.step
        res["event_counts"] = dict(log.counts)
        res["digest"] = log.digest()
        res["sample"] = {"paths": program["config"]["paths"], "ops": [{k: x for k, x in o.items() if not k.startswith("_")} for o in program["ops"][:10]], "tables": program["config"]["tables"][:3]}
    except Exception:  # noqa: BLE001
        res["harness_error"] = traceback.format_exc()[-3000:]
    finally:
        try:
            import tables as _tb

            _tb.file._open_files.close_all()
        except Exception:  # noqa: BLE001
            pass
        shutil.rmtree(workdir, ignore_errors=True)
    return res
