"""Generation helpers shared by the per-property workload profiles."""
from sim import tape
from sim.world import PRIOR_PALETTE, gen_data_spec, gen_library_spec


def pick_prior(rnd, allowed=None):
    idx = rnd.choice(allowed) if allowed else rnd.randrange(len(PRIOR_PALETTE))
    return dict(PRIOR_PALETTE[idx]), idx


def prior_index_for_seed(seed, prop):
    """Prior configuration is a function of the seed alone so the parent can deal seeds to workers
    grouped by prior (amortises pytensor warm-up)."""
    return tape.sub(seed, prop, "prior").randrange(len(PRIOR_PALETTE))


def base_config(seed, prop, rnd, n_libs=1, n_data=1, lib_n=None, profile=None, allow_f4=True, tier="quick"):
    pidx = prior_index_for_seed(seed, prop)
    prior = dict(PRIOR_PALETTE[pidx])
    libs = [gen_library_spec(rnd, prior, n=lib_n, allow_f4=allow_f4) for _ in range(n_libs)]
    datas = []
    for j in range(n_data):
        d = gen_data_spec(rnd, prior, profile=profile)
        if d["profile"] in ("spike", "informative"):
            li = rnd.randrange(n_libs)
            d["orbit_from"] = [li, rnd.randrange(libs[li]["n"])]
        datas.append(d)
    return {
        "prior": prior,
        "prior_idx": pidx,
        "libraries": libs,
        "datasets": datas,
        "pool": {"kind": "sim", "size": rnd.randint(1, 6)},
        "rng_seed": rnd.getrandbits(32),
        # the thorough tier can afford more dill transports (each loads() re-evaluates pytensor graphs, ~0.8 s)
        # "proc" = a REAL worker process (fresh interpreter, stepped one chunk at a time): true per-process module
        # state.  Not for C03 (its attribution oracle needs the worker's draws, which a real process keeps to itself).
        "sched_profile": {"p_dill": 0.06 if tier == "thorough" else 0.02, "p_proc": 0.0 if prop in ("C03", "C13") else (0.03 if tier == "thorough" else 0.01), "proc_servers": 2},
    }


def gen_n_batches(rnd, n_rows):
    """n_batches below, equal to and above the number of rows, and None.

    Every task re-parses the file's YAML header (~15 ms of real work), so the number of tasks per map
    call is kept <= ~34 except for a rare large case.
    """
    c = rnd.random()
    big_ok = n_rows <= 34 or rnd.random() < 0.08
    if c < 0.15:
        return None
    if c < 0.25:
        return 1
    if c < 0.40 and big_ok:
        return n_rows
    if c < 0.55:
        return n_rows + rnd.randint(1, 5)
    if c < 0.65 and big_ok:
        return max(1, n_rows - 1)
    return rnd.randint(1, max(1, min(n_rows, 24)))


def internal_units_lib(libspec, prior):
    u = libspec["units"]
    return u["P"] == "d" and u["omega"] == "rad" and u["M0"] == "rad" and u["s"] == prior["rv_unit"]
