"""C10 -- seeded runs are reproducible; randomness confined to the given generator.

A sequence of API calls on one TheJoker is executed as TWINS: equal seeds and equal batching, but a
different schedule (transport, chunking, completion order, worker assignment, pool kind) and different
poisoned global random state.  Plus a mid-run clone twin and stream-uniqueness invariants.
"""
import copy
import random

import numpy as np

from sim import oracles, recgen, tape
from sim.executor import Deployment
from sim.oracles import Violation
from sim.runner import GlobalStateMonitor

from . import common, sampling

PROPERTY = "C10"
MIX_PRIORS = True  # workers are NOT dealt seeds by prior: process-global state across priors is in scope


def generate(seed, tier="quick"):
    rnd = tape.sub(seed, PROPERTY, "gen")
    max_n = 80 if tier == "quick" else 200
    cfg = common.base_config(seed, PROPERTY, rnd, tier=tier, n_libs=2, n_data=1)
    for lib in cfg["libraries"]:
        lib["n"] = rnd.choice([2, 3, 5, 8, 13, 21, 34, rnd.randint(2, max_n)])
        n = lib["n"]
        lib["duplicates"] = []
        if n >= 4:  # duplicated row placed far apart so it lands in different batches
            lib["duplicates"] = [[0, n - 1], [1, n // 2]]
    d = cfg["datasets"][0]
    d["profile"] = rnd.choice(["flat", "flat", "weak", "weak", "informative"])  # many acceptances => many draws
    d["orbit_from"] = None
    ops = []
    expensive = rnd.random() < 0.15
    n_ops = rnd.randint(2, 5)
    all_explicit = True
    for oid in range(n_ops):
        c = rnd.random()
        li = rnd.randrange(2)
        N = cfg["libraries"][li]["n"]
        if expensive and c < 0.35:
            k = rnd.choice(["prior_sample", "rejection_by_count"])
            if k == "prior_sample":
                op = {"id": oid, "op": "prior_sample", "size": rnd.randint(1, 6), "generate_linear": rnd.random() < 0.5, "return_logprobs": rnd.random() < 0.3, "rewind": rnd.random() < 0.6}
                if tier == "thorough" and rnd.random() < 0.01:
                    # scale probe: a library of realistic size asked for in one request (block-wise generation, if any,
                    # must still draw everything from the given generator)
                    op["size"] = 2**15 + rnd.randint(1, 300)
                    op["return_logprobs"] = False
            else:
                op = {"id": oid, "op": "rejection_by_count", "data": 0, "N": rnd.randint(2, 12), "in_memory": rnd.random() < 0.5, "kw": {"n_linear_samples": rnd.choice([1, 2])}}
                if not op["in_memory"]:
                    op["kw"]["n_batches"] = rnd.randint(1, 4)  # equal batching between the twins
                else:
                    op["rewind"] = rnd.random() < 0.6
            ops.append(op)
            continue
        if c < 0.12:
            ops.append({"id": oid, "op": "read_batch_random", "lib": li, "size": rnd.randint(1, N)})
            continue
        p, pname = sampling.gen_path(rnd)
        if c < 0.7:
            op = {"id": oid, "op": "rejection", "data": 0, "lib": li}
            op.update(p)
            op["kw"] = sampling.gen_rejection_kw(rnd, N, pname, logprobs=0.0, all_logprobs=0.2)
        else:
            op = {"id": oid, "op": "iterative", "data": 0, "lib": li}
            op.update(p)
            op["kw"] = sampling.gen_iterative_kw(rnd, N, pname)
            if op["kw"].get("init_batch_size", 1) == 0 or op["kw"].get("init_batch_size", 1) > N:
                op["kw"]["init_batch_size"] = rnd.randint(1, N)
            op["kw"].pop("max_prior_samples", None)
        if pname != "in_memory":
            if rnd.random() < 0.75:
                op["kw"]["n_batches"] = rnd.randint(1, min(8, max(1, N)))
            else:
                op["kw"]["n_batches"] = None
                all_explicit = False
        sampling.add_arg_types(rnd, op, p=0.15)
        ops.append(op)
    size_a = rnd.randint(1, 6)
    cfg["pool"] = {"kind": "sim", "size": size_a}
    if all_explicit:
        pool_b = rnd.choice([{"kind": "serial"}, {"kind": "sim", "size": rnd.randint(1, 6)}])
    else:  # equal batching: n_batches=None means max(1, pool.size)
        pool_b = {"kind": "sim", "size": size_a} if size_a > 1 else rnd.choice([{"kind": "serial"}, {"kind": "sim", "size": 1}])
    return {
        "format": 1, "property": PROPERTY, "seed": seed, "config": cfg, "ops": ops, "schedule": None, "faults": [],
        "twin": {"pool": pool_b, "sched_seed": seed ^ 0x5DEECE66D, "schedule": None, "clone_at": rnd.randrange(n_ops)},
    }


def _run_ops(dep, ops, gm, iso, rng=None, joker=None, clones=None):
    joker = joker or dep.joker
    rng = rng or dep.rng
    outs = []
    for op in ops:
        if clones is not None:
            clones.append(recgen.clone(rng))
        k = op["op"]
        if k in ("rejection", "iterative"):
            rec = dep.run_op(op, joker=joker)
        else:
            rec = {"op": op, "id": op.get("id"), "draw_lo": len(dep.record.draws), "maps": [], "raised": None, "out": None}
            dep.current_op = op.get("id")
            if hasattr(joker.pool, "begin_op"):
                joker.pool.begin_op(op.get("id"))
            ml = len(getattr(joker.pool, "map_calls", []))
            dep.log.add("op-begin", k, {x: y for x, y in op.items() if x != "id"})
            state_before = rng.bit_generator.state
            try:
                from sim.executor import capture, exc_chain

                if k == "prior_sample":
                    out = dep.world.prior.sample(size=op["size"], generate_linear=op.get("generate_linear", False), return_logprobs=op.get("return_logprobs", False), rng=rng)
                elif k == "rejection_by_count":
                    out = joker.rejection_sample(dep.world.datasets[op.get("data", 0)], int(op["N"]), in_memory=op.get("in_memory", False), **op.get("kw", {}))
                elif k == "read_batch_random":
                    from thejoker.utils import read_batch

                    out = read_batch(dep.world.library_file(op.get("lib", 0)), ["P", "e", "omega", "M0", "s"], int(op["size"]), rng=rng)
                else:
                    raise ValueError(k)
                rec["out"] = capture(out)
            except Exception as e:  # noqa: BLE001
                from sim.executor import exc_chain

                rec["raised"] = exc_chain(e)
            rec["draw_hi"] = len(dep.record.draws)
            rec["maps"] = list(getattr(joker.pool, "map_calls", [])[ml:])
            from sim.executor import _digestable

            if op.get("rewind") and rec["raised"] is None and k in ("prior_sample", "rejection_by_count"):
                # checkpoint / restore on the SAME Generator object: run again from the state saved before the call
                after = rng.bit_generator.state
                rng.bit_generator.state = state_before
                n_draws = len(dep.record.draws)
                try:
                    if k == "prior_sample":
                        out2 = dep.world.prior.sample(size=op["size"], generate_linear=op.get("generate_linear", False), return_logprobs=op.get("return_logprobs", False), rng=rng)
                    else:
                        out2 = joker.rejection_sample(dep.world.datasets[op.get("data", 0)], int(op["N"]), in_memory=True, **op.get("kw", {}))
                    rec["rewind"] = {"raised": None, "out": capture(out2)}
                except Exception as e:  # noqa: BLE001
                    rec["rewind"] = {"raised": exc_chain(e), "out": None}
                rng.bit_generator.state = after
                del dep.record.draws[n_draws:]  # the replayed draws are the same numbers by construction: not "repeats"

            dep.log.add("op-end", k, None, _digestable(rec["out"]) if rec["raised"] is None else {"raised": rec["raised"][0][0]})
            dep.history.append(rec)
        bad = gm.check()
        if bad:
            iso.append((op, bad))
            gm.arm()
        outs.append(rec)
    return outs


def _same_output(a, b):
    if (a["raised"] is None) != (b["raised"] is None):
        return "one twin raised (%s) the other did not (%s)" % (a["raised"], b["raised"])
    if a["raised"] is not None:
        if a["raised"][-1][0] != b["raised"][-1][0]:
            return "different exception types %s vs %s" % (a["raised"][-1], b["raised"][-1])
        return None
    return _cmp_cap(a["out"], b["out"])


def _cmp_cap(x, y):
    if x is None or y is None:
        return None if x is y else "one output missing"
    if x["type"] != y["type"]:
        return "types %s vs %s" % (x["type"], y["type"])
    if x["type"] == "tuple":
        for i, (p, q) in enumerate(zip(x["items"], y["items"])):
            r = _cmp_cap(p, q)
            if r:
                return "item %d: %s" % (i, r)
        return None
    if x["type"] == "ndarray":
        return None if oracles.same_values(x["v"], y["v"]) else "array: " + oracles.first_diff(x["v"], y["v"])
    if x["type"] == "JokerSamples":
        if x["names"] != y["names"]:
            return "columns %s vs %s" % (x["names"], y["names"])
        if x["n"] != y["n"]:
            return "%d rows vs %d rows" % (x["n"], y["n"])
        for k in x["names"]:
            a, b = x["cols"][k]["v"], y["cols"][k]["v"]
            if a.dtype.kind != "f" or b.dtype.kind != "f":
                if a.tobytes() != b.tobytes():
                    return "column %s differs (non-float dtype %s)" % (k, a.dtype)
                continue
            if not oracles.same_values(a, b):
                return "column %s: %s" % (k, oracles.first_diff(a, b))
        return None
    return None if x == y else "%s vs %s" % (x, y)


def run(program):
    """Own driver (twins).  Returns the generic result dict."""
    import traceback

    res = {"seed": program.get("seed"), "violations": [], "probes": {}, "harness_error": None}
    probes = res["probes"]

    def probe(k, n=1):
        probes[k] = probes.get(k, 0) + n

    depA = depB = depC = None
    try:
        v = []
        tw = program["twin"]
        # ---- twin A
        depA = Deployment(program)
        gmA = GlobalStateMonitor(tape.stable_hash(program["seed"], "poisonA"))
        gmA.arm()
        isoA = []
        clones = []
        outsA = _run_ops(depA, program["ops"], gmA, isoA, clones=clones)
        # ---- twin B: same seed, other schedule / pool kind / global poison
        progB = copy.deepcopy(program)
        progB["config"]["pool"] = tw["pool"]
        progB["seed"] = tw["sched_seed"]
        progB["schedule"] = tw.get("schedule")
        depB = Deployment(progB)
        gmB = GlobalStateMonitor(tape.stable_hash(program["seed"], "poisonB"))
        gmB.arm()
        isoB = []
        outsB = _run_ops(depB, program["ops"], gmB, isoB)
        # (a) bit-identical outputs
        for ra, rb in zip(outsA, outsB):
            op = ra["op"]
            why = _same_output(ra, rb)
            probe("twin_ops_compared")
            if why:
                v.append(Violation(PROPERTY, "C10.twin", "C10:%s:%s:not-reproducible-under-other-schedule-or-global-state" % (op["op"], sampling.path_name(op) if op["op"] in ("rejection", "iterative", "rejection_by_count") else "-"), "%s :: op %s" % (why, op)))
                break  # later differences are consequences of the first divergence (generator state)
        # twin used a different transport AND order?
        ta = {(m["decision"]["transport"], tuple(m["decision"]["order"])) for p in depA.pools for m in getattr(p, "map_calls", [])}
        tb = {(m["decision"]["transport"], tuple(m["decision"]["order"])) for p in depB.pools for m in getattr(p, "map_calls", [])}
        if ta != tb:
            probe("twin_used_different_transport_or_order")
        # (b) isolation
        for who, iso in (("A", isoA), ("B", isoB)):
            for op, bad in iso:
                for b in bad:
                    v.append(Violation(PROPERTY, "C10.isolation", "C10:%s:%s" % (op["op"], b), "after op %s (twin %s)" % (op, who)))
        # (c) stream uniqueness
        for dep in (depA, depB):
            fps = {}
            spawned_calls = 0
            for p in dep.pools:
                for m in getattr(p, "map_calls", []):
                    got = [t["fp"] for t in m["tasks"] if t["fp"] is not None]
                    if got:
                        spawned_calls += 1
                    if any(t.get("is_parent") for t in m["tasks"]):
                        v.append(Violation(PROPERTY, "C10.stream-unique", "C10:child-generators:task-carries-the-sampler's-own-generator", "map %s: a by-value pool would draw from a copy and the parent stream would be reused by the next call" % m["key"]))
                    for i, fp in enumerate(got):
                        if fp in fps:
                            v.append(Violation(PROPERTY, "C10.stream-unique", "C10:child-generators:same-stream-given-to-two-tasks", "map %s task %d reuses the stream of %s" % (m["key"], i, fps[fp])))
                        fps.setdefault(fp, "%s task %d" % (m["key"], i))
            if spawned_calls >= 2:
                probe("runs_with>=2_spawning_calls")
        # (d) no repeated draw blocks
        for dep in (depA,):
            seen = {}
            nd = 0
            for d in dep.record.draws:
                if d["method"] != "multivariate_normal":
                    continue
                nd += 1
                key = tape.digest_obj(np.asarray(d["result"]))
                if key in seen:
                    v.append(Violation(PROPERTY, "C10.repeat", "C10:linear-draws:identical-draw-block-repeated", "draw #%d on %s equals draw on %s" % (d["n"], d["gen"], seen[key])))
                    break
                seen[key] = d["gen"]
            probe("mvn_draw_blocks", nd)
            # duplicate rows in different tasks: equal (mean, cov) args with different generators
            args = {}
            for d in dep.record.draws:
                if d["method"] == "multivariate_normal":
                    k2 = tape.digest_obj([d["mean"], d["cov"]])
                    args.setdefault(k2, set()).add(d["gen"])
            if any(len(g) > 1 for g in args.values()):
                probe("equal_(a,A)_drawn_on_different_generators")
        # output-based form of (d): no two returned rows (in one call or across calls) may carry identical linear
        # parameters -- the draws are continuous, so equality means a stream was reused, wherever it was drawn
        seen_lin = {}
        lin_rows = 0
        for ra in outsA:
            if ra["raised"] is not None or ra["out"] is None:
                continue
            o = ra["out"]
            if o["type"] == "tuple":
                o = o["items"][0]
            if o["type"] != "JokerSamples" or "K" not in o["cols"]:
                continue
            names = [n for n in o["names"] if n not in ("P", "e", "omega", "M0", "s", "ln_prior", "ln_likelihood")]
            if not names or ra["op"]["op"] == "prior_sample":
                continue
            lin = np.stack([np.asarray(o["cols"][n]["v"], dtype=float) for n in names], axis=1)
            for i, row in enumerate(lin):
                k3 = row.tobytes()
                lin_rows += 1
                if k3 in seen_lin and not np.any(np.isnan(row)):
                    v.append(Violation(PROPERTY, "C10.repeat", "C10:linear-draws:identical-linear-parameters-returned-twice", "op %s row %d repeats the linear parameters of op %s row %d: %s" % (ra["op"].get("id"), i, seen_lin[k3][0], seen_lin[k3][1], row[:3])))
                    break
                seen_lin.setdefault(k3, (ra["op"].get("id"), i))
        probe("returned_linear_rows_checked_for_repeats", lin_rows)
        # (f) rewind: the SAME generator object put back to a saved state must reproduce the call
        for ra in outsA:
            rw = ra.get("rewind")
            if rw is not None:
                probe("rewind_ops")
                why = _same_output(ra, rw)
                if why:
                    v.append(Violation(PROPERTY, "C10.rewind", "C10:%s:same-generator-rewound-gives-different-output" % ra["op"]["op"], "%s :: %s" % (why, ra["op"])))
        # parent state advances between successive sampling calls
        # (e) mid-run clone twin
        k = min(tw.get("clone_at", 0), len(program["ops"]) - 1)
        progC = copy.deepcopy(program)
        depC = Deployment(progC)
        gmC = GlobalStateMonitor(tape.stable_hash(program["seed"], "poisonC"))
        gmC.arm()
        rngC = recgen.clone(clones[k], depC.record, label="parent")
        jokerC = depC.make_joker(depC.pool, rngC)
        outsC = _run_ops(depC, program["ops"][k:], gmC, [], rng=rngC, joker=jokerC)
        for ra, rc in zip(outsA[k:], outsC):
            why = _same_output(ra, rc)
            probe("clone_ops_compared")
            if why:
                op = ra["op"]
                v.append(Violation(PROPERTY, "C10.clone", "C10:%s:depends-on-hidden-state-outside-generator-and-inputs" % op["op"], "clone at op %d: %s :: %s" % (k, why, op)))
                break
        res["violations"] = v
        res["schedule"] = dict(depA.decider.taken)
        res["twin_schedule"] = dict(depB.decider.taken)
        res["n_ops"] = len(program["ops"])
        res["steps"] = depA.log.step + depB.log.step + depC.log.step
        ec = {}
        for d in (depA, depB, depC):
            for kk, n in d.log.counts.items():
                ec[kk] = ec.get(kk, 0) + n
        res["event_counts"] = ec
        res["digest"] = tape.digest_obj([depA.log.digest(), depB.log.digest(), depC.log.digest()])
        from sim.executor import _digestable

        res["op_out_digests"] = [tape.digest_obj(_digestable(r["out"]) if r["raised"] is None else {"raised": r["raised"][-1][0]}) for r in outsA]
        res["plan_digest"] = tape.digest_obj([program["config"], program["ops"], res["schedule"]])
        stats = {}
        distinct = set()
        for dep in (depA, depB):
            for pl in dep.pools:
                for kk, n in (getattr(pl, "stats", None) or {}).items():
                    if isinstance(n, dict):
                        dd = stats.setdefault(kk, {})
                        for a, b in n.items():
                            dd[a] = dd.get(a, 0) + b
                    else:
                        stats[kk] = stats.get(kk, 0) + n
                for m in getattr(pl, "map_calls", []):
                    d = m["decision"]
                    if m["n_tasks"] >= 2 or d["transport"] not in ("shared", "serialpool"):
                        distinct.add("sched:" + tape.digest_obj([m["func"], m["n_tasks"], d["transport"], d["chunks"], d["order"], d["workers"], d["lazy"]])[:16])
        res["pool_stats"] = stats
        res["distinct"] = sorted(distinct)[:300]
        for op in program["ops"]:
            probe("op:" + op["op"])
            if op["op"] == "prior_sample" and op.get("generate_linear"):
                probe("op:prior_sample+linear")
    except Exception:  # noqa: BLE001
        res["harness_error"] = traceback.format_exc()[-3000:]
    finally:
        for d in (depA, depB, depC):
            if d is not None:
                d.close()
    return res
