"""Static descriptions used by the parent CLI when writing evidence (no heavy imports)."""

_SCHED_RULE = (
    "One case = one simulated run: a seeded program (configuration swarm + operation list) executed on the real code under a "
    "seeded schedule (transport, chunking, completion order, worker assignment, lazy/eager delivery per pool.map call). "
    "distinct_nontrivial counts DISTINCT non-trivial schedules reached, measured as distinct "
    "(worker function, n_tasks, transport, chunk-size tuple, order permutation, worker assignment, lazy) tuples over all map calls with "
    ">= 2 tasks or a copying transport (reduce/dill); single-task by-reference map calls are trivial and not counted. "
)

_RVS = {
    "real": ["thejoker python modules (staged from /repo working tree)", "CJokerHelper compiled kernel", "twobody C", "h5py", "PyTables", "astropy", "numpy Generator/PCG64/SeedSequence", "dill", "pymc/pytensor priors", "schwimmbad.SerialPool (observed)"],
    "simulated": ["processing pool scheduling + transport (SimPool stands in for schwimmbad.MultiPool)", "worker processes: in-process and data-isolated by reduce/dill copies on the shared/reduce/dill transports, with per-worker overlays for whatever a worker writes into thejoker's module-level state on reduce/dill (the parent and other workers never see it); REAL worker processes (fresh interpreters, stepped one chunk at a time, so the interleaving stays the simulator's decision) on the 'proc' transport (1-3% of map calls; pool stat proc_chunks counts them; not used by C03/C13)"],
    "none": ["clock/timers: the package has none"],
    "concurrent_callers": ["C02/C05/C06/C14: in 12-15% of programs a second caller (another TheJoker, real SerialPool) makes a whole call while the first is inside pool.map -- same process or forked sibling (os.getpid seam, module state of the run start), optionally suspended mid-call in a baton-passed thread and resumed after the first caller's op; probes second_caller_* count them",
                           "the user's data may be handed over in non-canonical form (explicit t_ref in UTC/TDB, surveys in mixed velocity units); the references L*/A* are then computed from a canonical copy converted by astropy in the harness"],
}
_RVS_DEFAULT = _RVS
_RVS_STUB = dict(_RVS, stubbed_in_a_fraction_of_runs=["kernel OUTPUT of designated library rows overridden to -inf (sim/llproxy.py) in ~15% of runs, counted by the probe runs_with_neg_inf_profile_stub; everything else in those runs is the real kernel"])

META = {
    "C05": {
        "level": "exploration",
        "technique": "deterministic simulation: seeded pool schedules/transports + call histories, row-at-a-time reference oracle",
        "level_text": "Seeded exploration of execution paths x schedules x call histories on the real code: every marginal_ln_likelihood path must return the "
        "row-at-a-time fresh-helper reference L* in input order (bitwise where both sides share a conversion), equal seeds must accept the same rows on every path, "
        "and a long-lived helper driven through random likelihood/posterior/pickle interleavings must keep returning L*. Histories include: other data sets / libraries / posterior stages on the same TheJoker, one shared file name rewritten with another library (other units, other row count, also in append+overwrite mode), a survey replaced inside the same data container, setup_mcmc between calls, equal-seed call SEQUENCES under different batching (accepted set must agree at every step), real worker processes (proc transport); monitors: the user's library and data objects must not be edited, objects returned earlier must not change later; a sample of seeds is re-executed in fresh interpreters and must give the same outputs. Equal-seed iterative_rejection_sample twins across cache/file, pools and transports must accept the same rows; a second caller interleaved at the pool seam (same process / forked sibling / suspended mid-call) must get what it gets alone and must not disturb the first; options are also passed as numpy integers / np.bool_. Sampling, not proof: a clean batch is evidence. A call of the history may FAIL half-way (injected worker / pool.map fault in a 'history' call on the main sampler): the target calls after it are judged as always.",
        "level_note": "Trusts: numpy/h5py/PyTables/astropy/dill; SimPool's model of multiprocess pools (by-value chunks, any completion order, results in task order); "
        "L* is computed by the system's own kernel so kernel arithmetic is out of scope (C01). Worker isolation on the in-process transports covers the task data and thejoker's module-level attributes; anything else per-process only on the proc transport.",
        "design_ref": "DESIGN.md section 4 / C05",
        "rule": _SCHED_RULE + "C05 compares the same library rows through 5-9 execution paths per run (in-memory / cache / file, n_batches below/equal/above N, "
        "SerialPool / SimPool) with random call histories in between, against the row-at-a-time fresh-helper reference L*.",
        "assumptions": [
            "L* uses the system's own kernel: nothing is asserted about the kernel's arithmetic (C01 not claimed)",
            "worker processes are simulated in one interpreter: data isolation (reduce/dill copies) is faithful; module-level state of thejoker.* written by a worker is kept per worker on reduce/dill (overlay), other per-process state (class attributes, third-party modules) is shared except on the proc transport",
            "bitwise equality is required wherever both sides use the same conversion; 1e-8 relative on ll only between pack() and read_batch() conversions of non-internal units",
        ],
    },
    "C02": {
        "level": "exploration",
        "real_vs_stub": _RVS_STUB,
        "technique": "deterministic simulation: history check at the RNG seam (recorded uniforms/shuffles) against a reference acceptance model, over paths x schedules x seeds",
        "level_text": "Seeded exploration: every rejection_sample call (in-memory / cache / file, shuffled or not, truncated or not, under seeded pool schedules) is judged from the "
        "history recorded at the RNG, pool and storage seams: rows evaluated (from the task lists / in-memory evaluation point), the uniform vector drawn on the sampler's own generator, "
        "the row-at-a-time likelihood L*, and a pure-Python reference acceptance loop; the returned nonlinear columns must be exactly the accepted library rows, in evaluation order, truncated at the right end. Histories also contain a call that FAILS half-way (injected worker / pool.map fault, raised to the caller): the calls after it on the same sampler, files and process are judged exactly as in a fault-free history. In a quarter of the runs a second library of the same size, other values, other column units and other ln_prior tags shares ONE file name with the first; the user regenerates the file between calls and every call must reflect what the file holds now.",
        "level_note": "Input dimension (libraries, data) is only as dense as the configuration swarm samples it (weaker than dedicated input generation): libraries of 1..300 rows, plus (thorough tier, ~1 run in 2000) a scale probe of 2^20+k rows whose reference is evaluated in 4096-row chunks. ll comes from the system's own kernel (L*). "
        "Positions where exp(ll-max) is within 1e-12 of u are not judged. NaN likelihoods are outside the quantifier and not judged.",
        "design_ref": "DESIGN.md section 4 / C02",
        "rule": _SCHED_RULE + "C02 judges each rejection_sample call against the reference acceptance model built from the recorded uniform vector.",
        "assumptions": ["L* from the system's own kernel", "-inf likelihoods next to finite ones cannot be produced by the real kernel with finite data in this code base; in ~15% of runs the kernel OUTPUT of designated library rows is overridden to -inf by a helper proxy (sim/llproxy.py, identified by row values so the profile is schedule-independent); probe inf_next_to_finite reports reach"],
    },
    "C03": {
        "level": "exploration",
        "technique": "deterministic simulation: draw-to-row attribution at the RNG seam + differential of (a, A) across schedules/histories (closed form NOT claimed)",
        "level_text": "RESTRICTED claim: attribution, count, order and units of the linear draws, unchanged nonlinear copy, metadata, and bit-identical (mean, cov) arguments for a library row whatever the "
        "batching, transport, order, pool kind or call history (fresh-helper single-row reference). The distributional core -- that (a, A) equal the closed-form conditional posterior -- is a pure function of the inputs and is not decided by this technique. Histories also contain a call that FAILS half-way (injected worker / pool.map fault, raised to the caller): the calls after it on the same sampler, files and process are judged exactly as in a fault-free history. In a quarter of the runs a second library of the same size, other values, other column units and other ln_prior tags shares ONE file name with the first; the user regenerates the file between calls and every call must reflect what the file holds now.",
        "level_note": "Does not check the values of a, A against the analytic formula (jitter, K-variance cap): that is input-space work outside deterministic simulation. Trusts numpy's multivariate_normal.",
        "design_ref": "DESIGN.md section 4 / C03",
        "rule": _SCHED_RULE + "C03 attributes every recorded multivariate_normal draw to the accepted library row it was made for.",
        "assumptions": ["closed form of (a, A) not checked (restricted claim)"],
    },
    "C06": {
        "level": "exploration",
        "real_vs_stub": _RVS_STUB,
        "technique": "deterministic simulation: unique-tag attribution of ln_prior/ln_likelihood through three index spaces over paths x schedules",
        "level_text": "Every library row carries a unique ln_prior tag; with return_logprobs the returned tag must name the library row whose nonlinear values the row holds and ln_likelihood must be L* of that row; "
        "return_all_logprobs must equal L* in evaluation order; both samplers, all paths, shuffled/subset/truncated configurations biased so that the three index spaces differ. Histories also contain a call that FAILS half-way (injected worker / pool.map fault, raised to the caller): the calls after it on the same sampler, files and process are judged exactly as in a fault-free history. In a quarter of the runs a second library of the same size, other values, other column units and other ln_prior tags shares ONE file name with the first; the user regenerates the file between calls and every call must reflect what the file holds now.",
        "level_note": "Depends on the C02/C14 reconstruction of the expected accepted rows; ops whose acceptance is not judgeable (NaN, ambiguous) are skipped.",
        "design_ref": "DESIGN.md section 4 / C06",
        "rule": _SCHED_RULE + "C06 checks the tag carried by each returned row.",
        "assumptions": ["L* from the system's own kernel"],
    },
    "C10": {
        "level": "exploration",
        "technique": "deterministic simulation: twin replays under different schedules/pool kinds and poisoned global RNG state; stream-uniqueness invariant at the pool seam; mid-run clone twin",
        "level_text": "Each call sequence runs as twins with equal seeds and batching but different schedules (transport, chunking, completion order, worker assignment, serial vs simulated multi-process pool) "
        "and different poisoned numpy/python global random state: outputs must be bit-identical, global state digests unchanged after every op, every child generator crossing the pool seam unique, no draw block repeated, and a clone of the generator taken mid-run must reproduce the remaining ops. Also: the same Generator object rewound to a saved state must reproduce prior.sample / rejection_sample(data, <int>); no two returned rows may carry identical linear parameters (output-based form of stream independence); "
        "a task must never carry the sampler's own generator; and a sample of seeds is re-executed in fresh interpreters whose per-op OUTPUT digests must equal the original's (cross-process form of 'equal seed and inputs give bit-identical outputs': reaches process-global state shared between priors/objects; confirmed through an explicit prelude replay before it is reported). The cross-process sample prefers runs that drew linear parameters from the prior (prior.sample(generate_linear=True)).",
        "level_note": "Real multiprocess scheduling is modelled by SimPool. Workers are not dealt seeds by prior for C10 (all eight prior configurations meet in every worker process). A cross-process output difference is reported as a violation only after sim.replay reproduced it twice from an explicit replay file (program alone in a fresh interpreter vs after the prelude of earlier seeds).",
        "design_ref": "DESIGN.md section 4 / C10",
        "rule": _SCHED_RULE + "C10 runs every program three times (twin A, twin B under another schedule and global poison, clone twin C).",
        "assumptions": ["prior.sample ops are expensive (pytensor compile) and drawn for ~1 run in 10"],
    },
    "C12": {
        "level": "exploration",
        "technique": "deterministic simulation: seeded stateful write/overwrite/append/read histories against an in-memory table model, with refused-operation and storage-open faults",
        "level_text": "Histories of 2-10 file operations over 1-3 paths (.hdf5/.h5/.fits) are executed on the real code and compared op by op with a reference table model: read-back equality (columns, values bitwise, units, t_ref, poly_trend, n_offsets), "
        "appends = concatenation, must-refuse appends (different column set, conflicting metadata) raise and leave the file byte-identical (SHA-256), may-refuse appends either raise+identical or convert correctly (an accepted append into a narrower float type must not change any value), read_batch returns exactly the requested rows/columns/units. Histories also: zero-row tables, the same JokerSamples object written again (also after a refused write), a column of a live object replaced between writes, the file used as a sampler library in between, and the sampler's own outputs written and appended. A table that must be refused for its column set may carry a metadata keyword the file lacks (JokerSamples(..., run_id=...)): the file must still be byte-identical afterwards.",
        "level_note": "Appending a table whose t_ref is None to a file that has one, and what remains after a write that failed half-way, are unspecified by the statement and not judged. Reading through an open PyTables group is outside the model (the code records that limitation).",
        "design_ref": "DESIGN.md section 4 / C12",
        "rule": "One case = one seeded history of file operations. distinct_nontrivial counts distinct (operation, variant/selector kind, file format, file existed or not) tuples reached; a single write is trivial, any op on an existing file or a refused/faulted op is not.",
        "assumptions": ["values compared bitwise on read-back; 4 ulp (f8) / 2e-6 relative (f4) on unit-converted batch reads"],
    },
    "C13": {
        "level": "fault_enumeration",
        "technique": "fault enumeration inside deterministic simulation: every call event of the sampling entry points failed at its k-th occurrence (sys.monitoring), plus pool/worker/transport/RNG faults; leak, user-file-hash, propagation and follow-up-call oracles",
        "level_text": "For each sampled workload (entry point x cache-or-user-file x pool kind x options) the crash-point index k is ENUMERATED over all call events made inside thejoker during the call (runs of > 8 identical consecutive sites thinned to 6), "
        "with five rotating exception kinds incl. KeyboardInterrupt, plus worker-before/after x abort/continue, pool.map broken, unserialisable task, and k-th generator draw failing. After each trial: the exception reached the caller with the injected error on its chain, "
        "no temp cache file remains (by name -- '.hdf5'/'.h5' anywhere -- or HDF5 signature), the user file's SHA-256/size/mtime are unchanged, and the same TheJoker object repeats the call bit-identically to a fresh twin. A swallowed fault counts only if the result differs from the fault-free result of the same seed. An OSError about the cache file raised by clean-up code that replaces the propagating error (real error only as implicit __context__) is a violation too. 15% of workloads run with the caller as a process forked after the import (os.getpid seam); 30% of user-file workloads name the file by a non-normalised path. Workloads also cover: prior samples requested by count (bounded sample of crash points, call sites in prior.py preferred), an empty library object (the call fails by itself: natural failing exit path), a user file kept inside the sampler's tempfile_path after an earlier call, pool life-cycle (close/terminate => 'Pool not running'), worker exceptions that pickle but cannot be rebuilt in the parent (a real pool would hang).",
        "level_note": "Complete over k per sampled workload up to the stated thinning rule; workloads are sampled. Calls made inside the Cython kernel are not call events (covered via the RNG seam). Leak clause waived only when the failed call is the cleanup os.unlink itself.",
        "design_ref": "DESIGN.md section 4 / C13",
        "rule": "One case = one workload whose crash points are enumerated. evaluations counts workloads; distinct_nontrivial counts distinct (entry point, call site file:function->callee, exception kind) and (entry point, non-call fault kind, position) tuples at which a fault actually FIRED.",
        "assumptions": ["thinning: runs of > 8 identical consecutive call sites reduced to first/middle/last + 3 seeded picks (quick); thorough enumerates all", "workloads on the dill transport and by-count workloads enumerate a bounded seeded sample of crash points (24 / 12-40) because every trial re-evaluates pytensor graphs", "one KNOWN finding (prior.sample swallows log-prior failures on the by-count entry point), see known_findings.json"],
    },
    "C14": {
        "level": "exploration",
        "real_vs_stub": _RVS_STUB,
        "technique": "deterministic simulation: history check over RNG + storage + pool seams with NaN-row storage fault",
        "level_text": "Every iterative_rejection_sample call is judged from the recorded history: rows handed to the likelihood (no row twice, at most min(max_prior_samples, N)), the last uniform vector on the sampler's generator, L* over all evaluated rows, "
        "reference acceptance against the max over ALL evaluated rows, first n_requested accepted returned with their linear draws; too-small libraries must raise; any outcome other than a JokerSamples or a raised exception is a violation. The growth schedule is not in the oracle. Histories also contain a call that FAILS half-way (injected worker / pool.map fault, raised to the caller): the calls after it on the same sampler, files and process are judged exactly as in a fault-free history. In a quarter of the runs a second library of the same size, other values, other column units and other ln_prior tags shares ONE file name with the first; the user regenerates the file between calls and every call must reflect what the file holds now.",
        "level_note": "Bounded progress = at most 130 likelihood rounds. Corrupted (NaN) stored value is the storage fault used for the 'always raises' clause.",
        "design_ref": "DESIGN.md section 4 / C14",
        "rule": _SCHED_RULE + "C14 judges each iterative call against the reference acceptance model over all evaluated rows.",
        "assumptions": ["L* from the system's own kernel"],
    },
    "C16": {
        "level": "exploration",
        "technique": "deterministic simulation: invariant on every task list crossing the pool seam and on every batch_tasks call the package makes; start_idx>0 by direct seeded calls (plain random testing, labelled)",
        "level_text": "Invariant checked on every partition observed in simulated runs (contiguous, non-empty, non-overlapping, ordered, exact cover of range or array, each task carries its own start) plus direct seeded calls of utils.batch_tasks for start_idx > 0, which the package itself never uses -- that part is plain random testing of a pure function and is labelled so.",
        "level_note": "Reference is the statement itself (not a particular partition): the way the remainder is distributed and the number of batches are not constrained. Also checked: what crosses the pool seam equals the partition produced, and every fan-out covers what run_worker was asked to cover (index array / first n_prior_samples rows / all rows of the file now). Thorough tier adds a scale probe (> 65536 indices in one fan-out).",
        "design_ref": "DESIGN.md section 4 / C16",
        "rule": "One case = one simulated run with several sampling ops and 4-12 direct batch_tasks calls. distinct_nontrivial counts distinct (n_tasks, n_batches, with_array[, start_idx]) tuples reached plus distinct non-trivial schedules; n_tasks=1 with n_batches=1 is trivial.",
        "assumptions": ["start_idx>0 reached only by direct calls"],
    },
}

for _k, _v in META.items():
    _v.setdefault("real_vs_stub", _RVS_DEFAULT)
