"""Static descriptions used by the parent CLI when writing evidence (no heavy imports)."""

_SCHED_RULE = (
    "One case = one simulated run: a seeded program (configuration swarm + operation list) executed on the real code under a "
    "seeded schedule (transport, chunking, completion order, worker assignment, lazy/eager delivery per pool.map call). "
    "distinct_nontrivial counts DISTINCT non-trivial schedules reached, measured as distinct "
    "(worker function, n_tasks, transport, chunk-size tuple, order permutation, worker assignment, lazy) tuples over all map calls with "
    ">= 2 tasks or a copying transport (reduce/dill); single-task by-reference map calls are trivial and not counted. "
)

META = {
    "C05": {
        "level": "exploration",
        "technique": "deterministic simulation: seeded pool schedules/transports + call histories, row-at-a-time reference oracle",
        "level_text": "Seeded exploration of execution paths x schedules x call histories on the real code: every marginal_ln_likelihood path must return the "
        "row-at-a-time fresh-helper reference L* in input order (bitwise where both sides share a conversion), equal seeds must accept the same rows on every path, "
        "and a long-lived helper driven through random likelihood/posterior/pickle interleavings must keep returning L*. Sampling, not proof: a clean batch is evidence.",
        "level_note": "Trusts: numpy/h5py/PyTables/astropy/dill; SimPool's model of multiprocess pools (by-value chunks, any completion order, results in task order); "
        "L* is computed by the system's own kernel so kernel arithmetic is out of scope (C01). Worker isolation is data-level only (one interpreter).",
        "design_ref": "DESIGN.md section 4 / C05",
        "rule": _SCHED_RULE + "C05 compares the same library rows through 5-9 execution paths per run (in-memory / cache / file, n_batches below/equal/above N, "
        "SerialPool / SimPool) with random call histories in between, against the row-at-a-time fresh-helper reference L*.",
        "assumptions": [
            "L* uses the system's own kernel: nothing is asserted about the kernel's arithmetic (C01 not claimed)",
            "worker processes are simulated in one interpreter: data isolation (reduce/dill copies) is faithful, per-process module state is shared",
            "bitwise equality is required wherever both sides use the same conversion; 1e-8 relative on ll only between pack() and read_batch() conversions of non-internal units",
        ],
    },
}
