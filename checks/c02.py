"""C02 -- rejection keeps sample i iff exp(ll_i - max ll) > u_i; rows unaltered, in order."""
import numpy as np

from sim import oracles, tape
from sim.oracles import Violation

from . import common, sampling

PROPERTY = "C02"


def generate_big(seed, prop):
    """Scale probe (thorough tier only, ~1 run in 2000): one in-memory rejection step over > 2**20 prior samples."""
    rnd = tape.sub(seed, prop, "gen-big")
    cfg = common.base_config(seed, prop, rnd, tier="thorough", n_libs=1, n_data=1, profile="spike", allow_f4=False)
    lib = cfg["libraries"][0]
    lib["n"] = 2**20 + rnd.randint(1000, 2**17)
    lib["duplicates"] = []
    lib["units"] = {"P": "d", "omega": "rad", "M0": "rad", "s": cfg["datasets"][0]["rv_unit"]}
    d = cfg["datasets"][0]
    d["orbit_from"] = [0, rnd.randint(2**20, lib["n"] - 1)]  # the best sample sits beyond row 2**20
    d["n_epochs"] = 12 if d["n_sources"] == 1 else 6  # enough epochs for the generating orbit to stand out of 10^6 samples
    kw = {"n_linear_samples": 1}
    if rnd.random() < 0.5:
        kw["max_posterior_samples"] = rnd.randint(1, 50)
    ops = [{"id": 0, "op": "rejection", "data": 0, "lib": 0, "joker": "main", "role": "target", "source": "object", "in_memory": True, "kw": kw}]
    return {"format": 1, "property": prop, "seed": seed, "config": cfg, "ops": ops, "schedule": None, "faults": [], "scale_probe": True}


def generate(seed, tier="quick", prop=PROPERTY, logprobs=0.0, all_logprobs=0.1):
    if tier == "thorough" and prop == PROPERTY and seed % 2000 == 7:
        return generate_big(seed, prop)
    rnd = tape.sub(seed, prop, "gen")
    max_n = 100 if tier == "quick" else 300
    cfg = common.base_config(seed, prop, rnd, tier=tier, n_libs=1, n_data=2)
    cfg["libraries"][0]["n"] = rnd.choice([1, 2, 3, 4, 5, 8, 13, 21, 34, 55, rnd.randint(1, max_n), rnd.randint(1, max_n)])
    lib = cfg["libraries"][0]
    lib["duplicates"] = [d for d in lib["duplicates"] if d[0] < lib["n"] and d[1] < lib["n"]]
    if lib["n"] >= 3 and rnd.random() < 0.3:  # exact ties
        lib["duplicates"].append([0, lib["n"] - 1])
    for d in cfg["datasets"]:
        if d.get("orbit_from"):
            d["orbit_from"] = [0, d["orbit_from"][1] % lib["n"]]
    nan_lib = sampling.add_nan_library(rnd, cfg, 0, p=0.12)
    sampling.add_neg_inf_profile(rnd, cfg, 0, p=0.15)
    alt = sampling.add_alt_units_library(rnd, cfg, 0, p=0.25)
    N = lib["n"]
    ops = []
    for oid in range(rnd.randint(2, 4)):
        p, pname = sampling.gen_path(rnd)
        op = {"id": oid, "op": "rejection", "data": rnd.randrange(2), "lib": 0, "joker": "main", "role": "target"}
        if nan_lib is not None and rnd.random() < 0.3:
            op["lib"] = nan_lib
        op.update(p)
        if op["lib"] == 0:
            sampling.use_alt_library(rnd, op, alt)
        op["kw"] = sampling.gen_rejection_kw(rnd, N, pname, logprobs=logprobs, all_logprobs=all_logprobs)
        sampling.add_arg_types(rnd, op)
        ops.append(op)
    prog = {"format": 1, "property": prop, "seed": seed, "config": cfg, "ops": ops, "schedule": None, "faults": [], "alt_lib": alt}
    sampling.add_concurrent(rnd, prog)
    sampling.add_failed_op(rnd, prog)
    return prog


def judge_rejection(dep, rec, L, prop, probes):
    """C02 core: returns (violations, info) for one rejection op; info feeds C06/C03."""
    v = []
    op = rec["op"]
    A = sampling.analyse(dep, rec, L)
    kw = A.kw
    N = A.N
    sig = "%s:rejection:%s" % (prop, A.path)
    info = {"A": A, "expected_rows": None, "ll": None, "judged": False}

    def probe(k, n=1):
        probes[k] = probes.get(k, 0) + n

    n_prior = kw.get("n_prior_samples") or N
    if sampling.failed_as_injected(rec):
        # a worker / the pool was made to fail inside this call and the failure reached the caller: nothing more is
        # promised for THIS call; the calls after it are judged as always
        probe("failed_op_in_history(injected pool fault, raised)")
        info["legit_raise"] = True
        return v, info
    # --- which rows were evaluated
    E = A.seam_rows
    if E is None:
        probe("observation_lost:evaluated-rows")
        E = list(range(n_prior))
    if any(x < 0 or x >= N for x in E):
        v.append(Violation(prop, prop + ".evaluated-values", sig + ":likelihood-evaluated-on-values-that-are-not-library-rows", "the batch handed to the likelihood holds %d row(s) whose nonlinear values match no library row (converted as pack() does)" % sum(1 for x in E if x < 0 or x >= N)))
        return v, info
    if A.randomize and A.parent_perm and np.isscalar(A.parent_perm[0].get("a")) and int(A.parent_perm[0]["a"]) != N:
        v.append(Violation(prop, prop + ".shuffle", sig + ":shuffle-drawn-over-a-population-that-is-not-the-library", "rng.choice over %s items, the library has %d rows" % (A.parent_perm[0]["a"], N)))
    if A.randomize and A.perm is not None:
        allp = [int(x) for x in A.perm]
        perm = allp[: len(E)]
        if len(set(allp)) != len(allp) or any(x < 0 or x >= N for x in allp):
            v.append(Violation(prop, prop + ".shuffle", sig + ":shuffle-not-a-subset-without-repeats", "choice result %s" % allp[:30]))
        elif A.seam_rows is not None and perm != list(E):
            packed = L.packed(op.get("data", 0), op.get("lib", 0))
            if len(perm) == len(E) and oracles.same_values(packed[perm], packed[list(E)]):
                E = perm  # same values (duplicated library rows): the shuffle names the rows
            else:
                v.append(Violation(prop, prop + ".order", sig + ":evaluated-rows-differ-from-shuffled-order", "evaluated %s vs shuffle %s" % (list(E)[:20], perm[:20])))
        probe("randomized_order")
        if n_prior < N:
            probe("n_prior_samples<N_with_shuffle")
    elif A.randomize and A.path != "in_memory":
        v.append(Violation(prop, prop + ".shuffle", sig + ":randomize_prior_order-without-draw-from-sampler-generator", "no choice/permutation recorded on the sampler's generator"))
    elif A.seam_rows is not None and list(E) != list(range(len(E))):
        v.append(Violation(prop, prop + ".order", sig + ":evaluated-rows-not-in-library-order", "evaluated %s" % list(E)[:20]))
    if len(E) != n_prior:
        v.append(
            Violation(
                prop,
                prop + ".n_prior_samples",
                sig + ":n_prior_samples-not-honoured",
                "n_prior_samples=%s N=%d but %d rows were evaluated" % (kw.get("n_prior_samples"), N, len(E)),
            )
        )
    if len(set(E)) != len(E):
        v.append(Violation(prop, prop + ".dup-eval", sig + ":row-evaluated-twice", "evaluated %s" % list(E)[:30]))
    ll = sampling.lstar_for(A, L, E) if len(E) else []
    info["ll"] = ll
    info["E"] = E

    if rec["raised"] is not None:
        if len(E) and (np.any(np.isnan(ll)) or not np.any(np.isfinite(ll))):
            # NaN likelihoods, or no finite value at all among the evaluated rows: outside the quantifier
            probe("raised_with_nan_or_no_finite_likelihood")
            return v, info
        v.append(Violation(prop, prop + ".raises", sig + ":raises:%s" % rec["raised"][-1][0], "op %s raised %s" % (op, rec["raised"])))
        return v, info
    out = rec["out"]
    if out["type"] == "tuple":
        info["all_ll"] = out["items"][1]
        out = out["items"][0]
    if out["type"] != "JokerSamples":
        v.append(Violation(prop, prop + ".type", sig + ":returns-%s" % out["type"], str(out)[:200]))
        return v, info
    info["out"] = out
    # --- uniforms
    us = A.parent_uniform
    u = np.concatenate([np.atleast_1d(d["result"]).ravel() for d in us]) if us else np.zeros(0)
    if len(u) != len(E):
        v.append(
            Violation(
                prop,
                prop + ".uniforms",
                sig + ":uniforms-not-one-per-evaluated-sample-from-sampler-generator",
                "%d uniform(s) recorded on the sampler's generator for %d evaluated rows" % (len(u), len(E)),
            )
        )
        return v, info
    if any(d.get("low", 0.0) != 0.0 or d.get("high", 1.0) != 1.0 for d in us if d["method"] == "uniform"):
        v.append(Violation(prop, prop + ".uniforms", sig + ":uniforms-not-on-(0,1)", str([(d.get("low"), d.get("high")) for d in us])))
    acc, amb = oracles.accept_reference([float(x) for x in ll], [float(x) for x in u])
    if acc is None:
        probe("nan_or_inf-inf_likelihood:not-judged")
        return v, info
    if amb:
        probe("ambiguous_acceptance:not-judged")
        return v, info
    if sampling.tol_mode(dep, A) != "exact":
        probe("judged_with_non_internal_units_on_file_path")
    mx = kw.get("max_posterior_samples")
    exp_pos = acc if mx is None else acc[:mx]
    if mx is not None and len(acc) > mx:
        probe("truncated_by_max_posterior_samples")
    if len(acc) == len(E) and len(E) > 1:
        probe("flat_profile_all_accepted")
    if len(acc) == 1 and len(E) > 3:
        probe("single_spike")
    if len(set(np.asarray(ll).tolist())) < len(ll):
        probe("ties")
    if np.any(np.isinf(ll)):
        probe("inf_next_to_finite")
    expected_rows = [E[i] for i in exp_pos]
    info["expected_rows"] = expected_rows
    info["exp_pos"] = exp_pos
    info["judged"] = True
    probe("judged_ops")
    probe("path:" + A.path)
    v += sampling.check_rows_unaltered(dep, A, out, expected_rows, prop, sig)
    return v, info


def evaluate(dep, program):
    probes = {}
    v = []
    L = oracles.LStar(dep.world)
    for rec in dep.history:
        if rec["op"]["op"] != "rejection":
            continue
        vv, info = judge_rejection(dep, rec, L, PROPERTY, probes)
        v += vv
    probes["lstar_evals"] = L.evals
    for rec_ in dep.results_changed_after_return():
        v.append(Violation("C02", "C02.result-mutated", "C02:%s:result-returned-earlier-was-changed-by-a-later-call" % rec_["op"]["op"], "the object returned by op %s no longer holds the values it held when it was returned" % (rec_["op"],)))
    for li, lib in enumerate(dep.world.libraries):
        bad = lib.modified_in_place()
        if bad:
            v.append(Violation("C02", "C02.input-modified", "C02:library-object-modified-in-place-by-a-call", "library %d: column(s) %s of the user's JokerSamples object no longer hold what was put there; later calls see another library" % (li, bad)))
    v += sampling.check_concurrent(dep, "C02", probes)
    if program.get("scale_probe"):
        probes["scale_probe_runs(N>2**20)"] = 1
    if program["config"].get("ll_override"):
        probes["runs_with_neg_inf_profile_stub(kernel output overridden)"] = 1
    return v, probes
