"""C13 -- failures propagate, never leak cache files, never damage user files (fault enumeration).

One run = one sampled workload (entry point x source x pool kind x options) whose call events are
ENUMERATED: every k in 1..N_calls is failed once (long runs of identical sites thinned by a stated
rule), plus pool / worker / transport / RNG faults.  After every trial: propagation, no-leak,
user-file-intact and next-call-correct oracles.
"""
import copy
import gc
import hashlib
import os
import pickle
import traceback

import numpy as np

from sim import inject, recgen, simpool, tape
from sim.executor import Deployment, capture, exc_chain
from sim.oracles import Violation

from . import c10, common, sampling

PROPERTY = "C13"

EXC_KINDS = ["OSError:EIO", "OSError:ENOSPC", "MemoryError", "RuntimeError", "KeyboardInterrupt", "ValueError"]


class SimOSError(OSError):
    pass


def make_exc(kind, site):
    msg = "SIMFAULT %s at %s:%s:%s -> %s" % (kind, site[0], site[1], site[2], site[3])
    if kind == "OSError:EIO":
        return SimOSError(5, msg)
    if kind == "OSError:ENOSPC":
        return SimOSError(28, msg)
    if kind == "MemoryError":
        return MemoryError(msg)
    if kind == "KeyboardInterrupt":
        return KeyboardInterrupt(msg)
    if kind == "ValueError":
        return ValueError(msg)
    return RuntimeError(msg)


def generate(seed, tier="quick"):
    rnd = tape.sub(seed, PROPERTY, "gen")
    cfg = common.base_config(seed, PROPERTY, rnd, n_libs=1, n_data=1, allow_f4=False)
    lib = cfg["libraries"][0]
    lib["n"] = rnd.choice([3, 5, 8, 13, 21, rnd.randint(3, 34)])
    lib["duplicates"] = []
    d = cfg["datasets"][0]
    d["profile"] = rnd.choice(["flat", "weak", "weak", "informative"])
    d["orbit_from"] = None
    N = lib["n"]
    kind = rnd.choice(["mll", "rejection", "rejection", "iterative"])
    src = rnd.choice(["object", "file"])
    op = {"id": 0, "op": kind, "data": 0, "lib": 0, "source": src, "in_memory": False}
    if kind == "mll":
        op["n_batches"] = rnd.choice([None, 1, 2, 3])
    elif kind == "rejection":
        kw = sampling.gen_rejection_kw(rnd, N, "file", logprobs=0.0, all_logprobs=0.2, nl_max=2)
        kw["n_batches"] = rnd.choice([None, 1, 2, 3])
        op["kw"] = kw
    else:
        kw = sampling.gen_iterative_kw(rnd, N, "file")
        kw["init_batch_size"] = rnd.randint(1, N)
        kw.pop("growth_factor", None)
        kw.pop("max_prior_samples", None)
        kw["n_batches"] = rnd.choice([None, 1, 2, 3])
        op["kw"] = kw
    if rnd.random() < 0.03:
        # an EMPTY library object (a selection that kept nothing): the call fails by itself -- a failing exit path
        # without any injected fault; the cache file must still be gone afterwards
        lib["n"] = 0
        lib["view"] = None
        lib["duplicates"] = []
        kind2 = rnd.choice(["mll", "rejection", "iterative"])
        op = {"id": 0, "op": kind2, "data": 0, "lib": 0, "source": "object", "in_memory": False}
        if kind2 == "mll":
            op["n_batches"] = rnd.choice([None, 1, 2])
        elif kind2 == "rejection":
            op["kw"] = {"n_linear_samples": 1, "n_batches": rnd.choice([None, 1, 2])}
        else:
            op["kw"] = {"n_requested_samples": 1, "init_batch_size": 1, "n_linear_samples": 1}
    if rnd.random() < 0.05:
        # prior samples requested by COUNT: prior.sample (pm.draw, pm.logp) runs inside rejection_sample, then the
        # cache path.  Every trial costs several pytensor evaluations, so only a bounded sample of crash points,
        # preferring the call sites inside prior.py.
        op = {"id": 0, "op": "rejection_by_count", "data": 0, "N": rnd.randint(4, 12), "source": "object", "in_memory": False,
              "kw": {"n_linear_samples": 1, "n_batches": rnd.choice([1, 2]), "return_logprobs": rnd.random() < 0.7}}
    if rnd.random() < 0.15:
        cfg["forked_child"] = True
    if op.get("source") == "file" and rnd.random() < 0.3:
        cfg["file_spelling"] = rnd.choice(["dot", "double-slash", "dotdot"])
    if op.get("source") == "file" and rnd.random() < 0.08:
        cfg["joker_tempfile_path_rel"] = "jokertmp"  # see Trialer: user file kept inside the sampler's tempfile_path
    pk = rnd.random()
    if pk < 0.3:
        cfg["pool"] = {"kind": "serial"}
    else:
        cfg["pool"] = {"kind": "sim", "size": rnd.randint(1, 4)}
    # dill transport re-evaluates pytensor graphs on every loads (~0.8 s): a workload that uses it gets
    # it on EVERY map call but only a bounded sample of crash points
    use_dill = cfg["pool"]["kind"] == "sim" and rnd.random() < 0.08
    cfg["sched_profile"] = {"p_dill": 1.0 if use_dill else 0.0, "p_shared": 0.0 if use_dill else 0.35}
    en = {"mode": "all" if tier == "thorough" else "thinned", "kind_rot": rnd.randrange(len(EXC_KINDS))}
    if use_dill:
        en["max_points"] = 24
    if op["op"] == "rejection_by_count":
        en["max_points"] = 12 if tier == "quick" else 40
        en["prefer_file"] = "prior.py"
    return {"format": 1, "property": PROPERTY, "seed": seed, "config": cfg, "ops": [op], "schedule": None, "faults": [], "enumerate": en}


def thin(trace, seed, mode):
    """Indices (1-based k) to inject.  Runs of > 8 consecutive identical sites are thinned to
    first / middle / last + 3 seeded picks; everything else is kept."""
    n = len(trace)
    if mode == "all":
        return list(range(1, n + 1)), 0
    keep = []
    i = 0
    thinned = 0
    r = tape.sub(seed, "thin")
    while i < n:
        j = i
        while j + 1 < n and trace[j + 1] == trace[i]:
            j += 1
        ln = j - i + 1
        if ln > 8:
            picks = {i, j, (i + j) // 2}
            while len(picks) < 6:
                picks.add(r.randint(i, j))
            keep += sorted(picks)
            thinned += ln - len(picks)
        else:
            keep += list(range(i, j + 1))
        i = j + 1
    return [k + 1 for k in keep], thinned


def _sha(path):
    if not os.path.exists(path):
        return None  # the file is gone
    h = hashlib.sha256()
    with open(path, "rb") as f:
        h.update(f.read())
    st = os.stat(path)
    return (h.hexdigest(), st.st_size, st.st_mtime_ns)


def _close_leaked_handles():
    """Harness hygiene: a fault injected *instead of* a close/__exit__ leaves handles open."""
    n = 0
    try:
        import tables

        reg = tables.file._open_files
        n += len(list(reg.handlers))
        reg.close_all()
    except Exception:  # noqa: BLE001
        pass
    try:
        import h5py

        for fid in h5py.h5f.get_obj_ids(types=h5py.h5f.OBJ_FILE):
            try:
                while fid.valid:
                    h5py.h5i.dec_ref(fid)
                n += 1
            except Exception:  # noqa: BLE001
                break
    except Exception:  # noqa: BLE001
        pass
    return n


def in_chain(err, injected, marker):
    e = err
    seen = set()
    while e is not None and id(e) not in seen:
        seen.add(id(e))
        if e is injected or (marker and marker in str(e)):
            return True
        if isinstance(e, BaseExceptionGroup):
            if any(in_chain(x, injected, marker) for x in e.exceptions):
                return True
        e = e.__cause__ or e.__context__
    return False


class Trialer:
    def __init__(self, program):
        self.program = program
        self.dep = Deployment(program)
        self.w = self.dep.world
        self.op = program["ops"][0]
        self.tmp_names = []
        self._patch_tempfile()
        if self.op.get("source") == "file" and program["config"].get("joker_tempfile_path_rel"):
            # HISTORY: the sampler's tempfile_path does not exist yet; a first call with the library as an object;
            # then the user creates that directory and keeps the library file THERE; the workload samples from it.
            jp = self.dep.make_joker(self.dep.make_pool({"kind": "serial"}), recgen.make(3, self.dep.record))
            try:
                jp.marginal_ln_likelihood(self.w.datasets[0], self.w.libraries[0].samples)
            except Exception:  # noqa: BLE001
                pass
            d = os.path.join(self.dep.workdir, program["config"]["joker_tempfile_path_rel"])
            os.makedirs(d, exist_ok=True)
            self.user_file = self.w.libraries[0].write(os.path.join(d, "lib0.hdf5"))
            self.user_sha = _sha(self.user_file)
            del self.tmp_names[:]
        elif self.op.get("source") == "file":
            self.user_file = self.w.library_file(0)
            self.user_sha = _sha(self.user_file)
        else:
            self.user_file = None
        self.inj = inject.get()
        self.inj.install()
        self.listing0 = self._listing()

    def _patch_tempfile(self):
        import thejoker.utils as tu

        orig = tu.NamedTemporaryFile
        names = self.tmp_names

        def NamedTemporaryFile(*a, **k):
            f = orig(*a, **k)
            names.append(f.name)
            return f

        tu.NamedTemporaryFile = NamedTemporaryFile
        self.dep._restore.append((tu, "NamedTemporaryFile", orig))

    def _listing(self):
        """HDF5 files in TMPDIR / user dir: by name (".hdf5"/".h5" anywhere in it, e.g. "x.hdf5.part") or by
        the HDF5 signature.  Third-party scratch files (numba / pytensor) match neither."""
        out = set()
        for d in (self.w.tmpdir, self.w.userdir):
            for root, dirs, files in os.walk(d):
                for f in files:
                    full = os.path.join(root, f)
                    if ".hdf5" in f or ".h5" in f or f.endswith(".fits"):
                        out.add(full)
                        continue
                    try:
                        with open(full, "rb") as fh:
                            if fh.read(8) == b"\x89HDF\r\n\x1a\n":
                                out.add(full)
                    except OSError:
                        pass
        return out

    def fresh(self, rng=None, faults=None):
        cfg = self.program["config"]
        rng = rng if rng is not None else recgen.make(cfg.get("rng_seed", 0), self.dep.record)
        pool = self.dep.make_pool(cfg["pool"], faults)
        self.dep.pools = self.dep.pools[-2:]
        return self.dep.make_joker(pool, rng), rng, pool

    def spelled(self, path):
        """The same file, named the way users do: not necessarily an absolute NORMALISED path."""
        how = self.program["config"].get("file_spelling")
        if not how:
            return path
        d, b = os.path.split(path)
        if how == "dot":
            return os.path.join(d, ".", b)
        if how == "double-slash":
            return d + "//" + b
        if how == "dotdot":
            return os.path.join(d, os.pardir, os.path.basename(d), b)
        return path

    def call(self, joker):
        if self.program["config"].get("forked_child"):
            # the caller is a process fork()ed after thejoker was imported (outer multiprocessing over sources):
            # os.getpid() no longer returns what it returned at import time
            real = os.getpid
            os.getpid = lambda: real() + 1000003
            try:
                return self._call(joker)
            finally:
                os.getpid = real
        return self._call(joker)

    def _call(self, joker):
        op = self.op
        src = self.spelled(self.user_file) if op.get("source") == "file" else self.w.libraries[0].samples
        data = self.w.datasets[0]
        if hasattr(joker.pool, "begin_op"):
            joker.pool.begin_op(op["id"])
        if op["op"] == "mll":
            return joker.marginal_ln_likelihood(data, src, n_batches=op.get("n_batches"))
        if op["op"] == "rejection":
            return joker.rejection_sample(data, src, **op.get("kw", {}))
        if op["op"] == "rejection_by_count":
            return joker.rejection_sample(data, int(op["N"]), **op.get("kw", {}))
        return joker.iterative_rejection_sample(data, src, **op.get("kw", {}))

    def post_trial(self, label, site, err_or_none, returned, injected, marker, joker, rng, v, probes, waive_leak=False, ctx=None):
        """Oracles 1-4 after a faulted call."""
        n_before = len(v)
        try:
            self._post_trial(label, site, err_or_none, returned, injected, marker, joker, rng, v, probes, waive_leak)
        finally:
            for x in v[n_before:]:
                x.update(ctx or {})

    def _post_trial(self, label, site, err_or_none, returned, injected, marker, joker, rng, v, probes, waive_leak=False):
        sig = "C13:%s:%s" % (self.op["op"], "file" if self.user_file else "cache")
        where = "%s:%s:%s->%s" % site if site else label
        # 1 propagation
        if isinstance(err_or_none, simpool.PoolWouldHang):
            v.append(Violation(PROPERTY, "C13.propagation", sig + ":worker-exception-cannot-be-rebuilt-in-parent:pool-would-hang", "fault %s: %s" % (label, str(err_or_none)[:400])))
        elif err_or_none is None:
            same = None
            if getattr(self, "ref_out", None) is not None:
                same = c10._same_output({"raised": None, "out": self.ref_out}, {"raised": None, "out": capture(returned)}) is None
            if same:
                # the call returned exactly what it returns without the fault: the failed call is one whose failure
                # the code already absorbs in normal operation (e.g. pm.logp of a parameter that has no density)
                probes["fault_absorbed_without_any_effect_on_the_result"] = probes.get("fault_absorbed_without_any_effect_on_the_result", 0) + 1
            else:
                v.append(Violation(PROPERTY, "C13.propagation", sig + ":fault-swallowed:" + (site[0] + ":" + site[1] + "->" + site[3] if site else label), "fault %s at %s did not reach the caller: it returned %s, which differs from the fault-free result" % (label, where, str(capture(returned))[:120])))
        elif not in_chain(err_or_none, injected, marker):
            v.append(Violation(PROPERTY, "C13.propagation", sig + ":fault-replaced-by-unrelated-exception:" + (site[0] + ":" + site[1] + "->" + site[3] if site else label), "fault %s at %s surfaced as %s without the injected error on its chain" % (label, where, exc_chain(err_or_none))))
        elif (err_or_none is not injected and isinstance(err_or_none, OSError) and not (marker and marker in str(err_or_none))
              and getattr(err_or_none, "filename", None) in set(self.tmp_names) and err_or_none.__cause__ is None):
            # what the caller catches is an OSError about the CACHE FILE raised by clean-up code while the real error was
            # propagating (implicit __context__ only): the failure was replaced, `except <real type>` no longer sees it
            v.append(Violation(PROPERTY, "C13.propagation", sig + ":fault-masked-by-cache-cleanup-error:" + (site[0] + ":" + site[1] + "->" + site[3] if site else label), "fault %s at %s surfaced as %s raised by the clean-up of the cache file; the real error is only its __context__" % (label, where, exc_chain(err_or_none)[:300])))
        else:
            if err_or_none is not injected:
                probes["fault_surfaced_wrapped_or_converted"] = probes.get("fault_surfaced_wrapped_or_converted", 0) + 1
        # 2 no leak
        left = [n for n in self.tmp_names if os.path.exists(n)]
        new = self._listing() - self.listing0
        if (left or new) and not waive_leak:
            v.append(Violation(PROPERTY, "C13.leak", sig + ":cache-file-left-behind:" + (site[0] + ":" + site[1] + "->" + site[3] if site else label), "after fault %s at %s: %d temp file(s) still exist (%s)" % (label, where, len(set(left) | new), [os.path.basename(x) for x in list(set(left) | new)][:3])))
        elif left or new:
            probes["cleanup_site_waiver_used"] = probes.get("cleanup_site_waiver_used", 0) + 1
        for n in set(left) | new:
            try:
                os.unlink(n)
            except OSError:
                pass
        del self.tmp_names[:]
        # 3 user file intact
        if self.user_file:
            now = _sha(self.user_file) if os.path.exists(self.user_file) else None
            if now != self.user_sha:
                v.append(Violation(PROPERTY, "C13.user-file", sig + ":user-file-modified:" + (site[0] + ":" + site[1] + "->" + site[3] if site else label), "after fault %s at %s: %s -> %s" % (label, where, self.user_sha, now)))
                os.makedirs(os.path.dirname(self.user_file), exist_ok=True)  # the directory may be gone as well
                self.w.libraries[0].write(self.user_file)
                self.user_sha = _sha(self.user_file)
        # 4 next call on the same object == fresh twin with a clone of the generator
        h = _close_leaked_handles()
        if h:
            probes["handles_left_open_after_fault"] = probes.get("handles_left_open_after_fault", 0) + h
        twin_rng = recgen.clone(rng, self.dep.record)
        for f in getattr(joker.pool, "faults", []):
            f["done"] = True
        self.dep.record.fail_at = None
        try:
            a = capture(self.call(joker))
            ea = None
        except Exception as e:  # noqa: BLE001
            a, ea = None, exc_chain(e)
        jt, _, _ = self.fresh(rng=twin_rng)
        if self.op["op"] == "rejection_by_count":
            # the prior object itself takes part in this entry point: the twin gets a brand-new JokerPrior, so state a
            # failed call left on the shared prior object cannot hide in both sides of the comparison
            import thejoker as tj

            from sim import world as _world

            jt = tj.TheJoker(_world.get_prior(self.program["config"]["prior"], fresh=True), pool=jt.pool, rng=twin_rng, tempfile_path=self.w.tmpdir)
        try:
            b = capture(self.call(jt))
            eb = None
        except Exception as e:  # noqa: BLE001
            b, eb = None, exc_chain(e)
        why = c10._same_output({"raised": ea, "out": a}, {"raised": eb, "out": b})
        if why or ea is not None:
            v.append(Violation(PROPERTY, "C13.next-call", sig + ":next-call-on-same-object-wrong:" + (site[0] + ":" + site[1] + "->" + site[3] if site else label), "after fault %s at %s the repeated call gives %s" % (label, where, why or ea)))
        left = [n for n in self.tmp_names if os.path.exists(n)]
        if left:
            v.append(Violation(PROPERTY, "C13.leak", sig + ":cache-file-left-behind-after-normal-call", str(left[:3])))
        del self.tmp_names[:]


def run(program):
    res = {"seed": program.get("seed"), "violations": [], "probes": {}, "harness_error": None, "faults_fired": {}}
    probes = res["probes"]
    fired_counts = res["faults_fired"]
    T = None
    try:
        T = Trialer(program)
        dep = T.dep
        log = dep.log
        v = []
        op = program["ops"][0]
        en = program.get("enumerate", {"mode": "thinned", "kind_rot": 0})
        # ---- fault-free dry run under the injector
        j0, rng0, pool0 = T.fresh()
        out0, err0, trace = T.inj.dry_run(lambda: T.call(j0))
        if err0 is not None:
            if not isinstance(err0, Exception) or program["config"]["libraries"][0]["n"] > 0:
                res["harness_error"] = "fault-free dry run raised: %r" % (err0,)
                return res
            # the call fails by itself (empty library): a failing exit path without an injected fault
            probes["fault_free_call_raises(empty library)"] = 1
            left = [n for n in T.tmp_names if os.path.exists(n)]
            new_files = T._listing() - T.listing0
            if left or new_files:
                v.append(Violation(PROPERTY, "C13.leak", "C13:%s:cache:cache-file-left-behind-when-the-call-fails-by-itself" % op["op"], "after %r: %s" % (err0, [os.path.basename(x) for x in list(set(left) | new_files)][:3])))
            del T.tmp_names[:]
            res["violations"] = v
            res["distinct"] = ["natural-failure:%s" % op["op"]]
            res["n_ops"] = 1
            res["steps"] = log.step
            res["event_counts"] = dict(log.counts)
            res["digest"] = log.digest()
            res["sample"] = {"op": op, "library_n": 0, "note": "call fails by itself: %s" % type(err0).__name__}
            return res
        log.add("dry-run", op["op"], {"n_calls": len(trace)}, None)
        T.ref_out = capture(out0)
        left = [n for n in T.tmp_names if os.path.exists(n)]
        if left:
            v.append(Violation(PROPERTY, "C13.leak", "C13:%s:cache-file-left-behind-after-normal-call" % op["op"], str(left)))
        del T.tmp_names[:]
        if T.user_file and _sha(T.user_file) != T.user_sha:
            v.append(Violation(PROPERTY, "C13.user-file", "C13:%s:file:user-file-modified-by-normal-call" % op["op"], "sha/size/mtime changed, or the file is gone"))
            os.makedirs(os.path.dirname(T.user_file), exist_ok=True)
            T.w.libraries[0].write(T.user_file)
            T.user_sha = _sha(T.user_file)
        probes["call_events"] = len(trace)
        sites = {}
        for t in trace:
            sites[t] = sites.get(t, 0) + 1
        probes["distinct_call_sites"] = len(sites)
        # ---- enumerate crash points
        if en.get("ks") is not None:
            ks, thinned = list(en["ks"]), 0
        else:
            ks, thinned = thin(trace, program["seed"], en.get("mode", "thinned"))
        if en.get("max_points") and len(ks) > en["max_points"]:
            r = tape.sub(program["seed"], "maxpoints")
            thinned += len(ks) - en["max_points"]
            if en.get("prefer_file"):
                pref = [k for k in ks if trace[k - 1][0] == en["prefer_file"] and ("pymc" in trace[k - 1][3] or "pytensor" in trace[k - 1][3] or "JokerSamples" in trace[k - 1][3])]
                pref = pref[: max(1, en["max_points"] * 3 // 4)] if len(pref) <= en["max_points"] * 3 // 4 else sorted(r.sample(pref, en["max_points"] * 3 // 4))
                rest = [k for k in ks if k not in set(pref)]
                ks = sorted(pref + r.sample(rest, max(0, min(len(rest), en["max_points"] - len(pref)))))
            else:
                ks = sorted(r.sample(ks, en["max_points"]))
            extra_cap = 6
        else:
            extra_cap = None
        probes["crash_points_injected"] = len(ks)
        probes["crash_points_thinned_away"] = thinned
        rot = en.get("kind_rot", 0)
        distinct = set()
        import time as _time

        deadline = float(os.environ.get("VERIF_DEADLINE", "0") or 0)
        truncated = False
        for n_i, k in enumerate(ks):
            if k > len(trace):
                continue
            if deadline and _time.time() > deadline + 20 and en.get("ks") is None:
                truncated = True  # wall-clock budget of the batch is over: stop enumerating, say so
                probes["enumeration_truncated_by_batch_deadline"] = 1
                probes["crash_points_injected"] = n_i
                break
            kind = en.get("kind") or EXC_KINDS[(rot + n_i) % len(EXC_KINDS)]
            j, rng, pool = T.fresh()
            out, err, fired = T.inj.run_with_fault(lambda: T.call(j), k, lambda site: make_exc(kind, site))
            if fired is None:
                probes["k_not_reached"] = probes.get("k_not_reached", 0) + 1
                del T.tmp_names[:]
                continue
            site, injected = fired
            fired_counts["call:" + kind] = fired_counts.get("call:" + kind, 0) + 1
            log.add("fault-fired", "call", {"k": k, "site": list(site), "kind": kind}, None)
            distinct.add("site:%s:%s:%s:%s:%s" % (op["op"], site[0], site[1], site[3], kind))
            waive = site[3] in ("posix.unlink", "posix.remove", "unlink", "remove") and site[1] == "wrapper"
            if isinstance(err, KeyboardInterrupt):
                probes["KeyboardInterrupt_propagated"] = probes.get("KeyboardInterrupt_propagated", 0) + 1
            T.post_trial("call#%d(%s)" % (k, kind), site, err, out, injected, "SIMFAULT", j, rng, v, probes, waive_leak=waive, ctx={"k": k, "kind": kind})
            err = None
            if n_i % 25 == 0:
                gc.collect()
        # ---- non-call faults: pool / worker / transport / rng
        extra = program.get("extra_faults")
        if extra is None:
            extra = []
            if program["config"]["pool"]["kind"] == "sim":
                n_maps = len(getattr(pool0, "map_calls", []))
                for m in range(n_maps):
                    nt = pool0.map_calls[m]["n_tasks"]
                    extra.append({"kind": "map", "op": 0, "map": m})
                    for t in sorted({0, nt - 1, nt // 2}):
                        for when in ("before", "after"):
                            for cont in (False, True):
                                extra.append({"kind": "worker", "op": 0, "map": m, "task": t, "when": when, "continue": cont})
                    extra.append({"kind": "dill", "op": 0, "map": m})
            nd = len([d for d in dep.record.draws])
            j1, rng1, _ = T.fresh()
            lo = len(dep.record.draws)
            try:
                T.call(j1)
            except Exception:  # noqa: BLE001
                pass
            ndraw = len(dep.record.draws) - lo
            del T.tmp_names[:]
            for kk in range(1, ndraw + 1):
                extra.append({"kind": "rng", "k": kk})
        if en.get("ks") is not None and program.get("extra_faults") is None:
            extra = []
        if extra_cap is not None and program.get("extra_faults") is None and len(extra) > extra_cap:
            extra = tape.sub(program["seed"], "extracap").sample(extra, extra_cap)
        for f in extra:
            f = dict(f)
            if deadline and _time.time() > deadline + 20 and program.get("extra_faults") is None:
                truncated = True
                probes["enumeration_truncated_by_batch_deadline"] = 1
                break
            if f["kind"] == "rng":
                j, rng, pool = T.fresh()
                dep.record.n = 0
                marker = "SIMFAULT rng draw %d" % f["k"]
                injected = recgen.RngFault(marker)
                dep.record.fail_at = (f["k"], injected)
                fired0 = dep.record.fired
            else:
                j, rng, pool = T.fresh(faults=[f])
                marker = "SIMFAULT"
                injected = None
            try:
                out = T.call(j)
                err = None
            except BaseException as e:  # noqa: BLE001
                out, err = None, e
            if f["kind"] == "rng":
                did = dep.record.fired > fired0
                dep.record.fail_at = None
            else:
                if f["kind"] == "dill":
                    did = any(x["kind"] == "dill" for x in getattr(pool, "fired", []))
                else:
                    did = bool(getattr(pool, "fired", []))
            if not did:
                probes["extra_fault_not_reached"] = probes.get("extra_fault_not_reached", 0) + 1
                del T.tmp_names[:]
                continue
            label = f["kind"] + (":%s:%s" % (f.get("when"), "continue" if f.get("continue") else "abort") if f["kind"] == "worker" else "")
            fired_counts[label] = fired_counts.get(label, 0) + 1
            distinct.add("extra:%s:%s:%s" % (op["op"], label, f.get("map", f.get("k"))))
            log.add("fault-fired", f["kind"], {kk: vv for kk, vv in f.items() if kk != "done"}, None)
            T.post_trial(label, None, err, out, injected, marker, j, rng, v, probes, ctx={"fault": {kk: vv for kk, vv in f.items() if kk != "done"}})
            err = None
        res["violations"] = v
        res["distinct"] = sorted(distinct)
        res["n_ops"] = 1
        res["steps"] = log.step
        res["event_counts"] = dict(log.counts)
        res["digest"] = None if truncated else log.digest()  # a truncated enumeration is time-dependent: no digest
        res["schedule"] = dict(dep.decider.taken)
        res["sample"] = {"op": op, "pool": program["config"]["pool"], "library_n": program["config"]["libraries"][0]["n"], "call_events": len(trace), "injected": len(ks),
                         "first_sites": ["%s:%s:%s->%s" % t for t in trace[:12]], "extra_faults": len(extra)}
        probes["workload:%s:%s:%s" % (op["op"], "file" if T.user_file else "cache", program["config"]["pool"]["kind"])] = 1
    except Exception:  # noqa: BLE001
        res["harness_error"] = traceback.format_exc()[-3000:]
    finally:
        if T is not None:
            _close_leaked_handles()
            T.dep.close()
    return res


def narrow(program, violation):
    """Reduce the enumeration to the single crash point / fault that produced the violation."""
    out = []
    if violation.get("k") is not None:
        c = copy.deepcopy(program)
        c["enumerate"] = dict(c.get("enumerate", {}), ks=[violation["k"]], kind=violation.get("kind"))
        c["extra_faults"] = []
        out.append(c)
    if violation.get("fault") is not None:
        c = copy.deepcopy(program)
        c["enumerate"] = dict(c.get("enumerate", {}), ks=[])
        c["extra_faults"] = [violation["fault"]]
        out.append(c)
    return out
