"""History analysis of one rejection_sample / iterative_rejection_sample call (RNG + pool + storage
seams) and the per-property oracles that read it (C02, C03-restricted, C06, C14, C16).
"""
import os

import numpy as np

from sim import oracles
from sim.oracles import Violation

NONLIN = ["P", "e", "omega", "M0", "s"]


def path_name(op):
    if op.get("in_memory"):
        return "in_memory"
    return "cache" if op.get("source", "object") == "object" else "file"


class Analysis:
    pass


def _parent_draws(draws):
    return [d for d in draws if d["gen"].startswith("parent")]


def _linear_names(prior_spec):
    names = ["K", "v0"] + ["dv0_%d" % (i + 1) for i in range(prior_spec["n_offsets"])] + ["v%d" % i for i in range(1, prior_spec["poly_trend"])]
    return names


def data_unit(dep, op):
    return dep.program["config"]["datasets"][op.get("data", 0)]["rv_unit"]


def expected_units(prior_spec, rv_unit=None):
    rv_unit = rv_unit or prior_spec["rv_unit"]
    vu = "km / s" if rv_unit == "km/s" else "m / s"
    un = {"P": "d", "e": "", "omega": "rad", "M0": "rad", "s": vu, "K": vu, "v0": vu}
    for i in range(prior_spec["n_offsets"]):
        un["dv0_%d" % (i + 1)] = vu
    return un, vu


def analyse(dep, rec, L):
    """Reconstruct what the call evaluated, which uniforms decided, and what it should return."""
    A = Analysis()
    op = rec["op"]
    A.op = op
    A.rec = rec
    A.kind = op["op"]
    A.path = path_name(op)
    kw = op.get("kw", {})
    A.kw = kw
    w = dep.world
    lib = w.libraries[op.get("lib", 0)]
    A.lib = lib
    N = lib.n
    A.N = N
    A.nl = int(kw.get("n_linear_samples", 1))
    draws = dep.draws(rec)
    A.draws = draws
    pd = _parent_draws(draws)
    A.parent_uniform = [d for d in pd if d["method"] in ("uniform", "random")]
    A.parent_perm = [d for d in pd if d["method"] in ("choice", "permutation")]
    A.mvn = [d for d in draws if d["method"] == "multivariate_normal"]
    A.problems = []  # (oracle, symptom, detail): observation-level inconsistencies
    A.randomize = bool(kw.get("randomize_prior_order", False))
    # ---- evaluated rows, in evaluation order -------------------------------------------
    mll_maps = [m for m in rec["maps"] if m["func"] == "marginal_ln_likelihood_worker"]
    post_maps = [m for m in rec["maps"] if m["func"] == "make_full_samples_worker"]
    A.mll_maps = mll_maps
    A.post_maps = post_maps
    A.seam_rows = None
    if A.path != "in_memory" and any(t["kind"] == "unknown" for m in rec["maps"] for t in m["tasks"]):
        A.seam_rows = None  # task layout not understood: observation lost, output-based oracles only
    elif A.path != "in_memory":
        rows = []
        for m in mll_maps:
            for t in m["tasks"]:
                if t["kind"] == "range":
                    rows.extend(range(t["rows"][0], t["rows"][1]))
                else:
                    rows.extend(int(x) for x in t["rows"])
        A.seam_rows = rows
    else:
        batches = [b for (oid, b) in getattr(dep, "inmem_batches", []) if oid == op.get("id")]
        A.inmem_batches = batches
        if batches:
            cat = np.concatenate(batches, axis=0) if len(batches) else np.zeros((0, 5))
            packed = L.packed(op.get("data", 0), op.get("lib", 0))
            n = len(cat)
            if n <= N and oracles.same_values(cat, packed[:n]):
                A.seam_rows = list(range(n))
            else:
                # map by value (duplicates in the library map to the first unused match)
                used = set()
                rows = []
                for r in cat:
                    m = np.nonzero(np.all((packed == r[None, :]) | (np.isnan(packed) & np.isnan(r)[None, :]), axis=1))[0]
                    pick = next((int(i) for i in m if int(i) not in used), int(m[0]) if len(m) else -1)
                    used.add(pick)
                    rows.append(pick)
                A.seam_rows = rows
    # ---- E: the evaluation order the statement talks about -------------------------------
    A.E = A.seam_rows
    A.perm = None
    if A.parent_perm:
        p = np.asarray(A.parent_perm[0]["result"]).astype(int).ravel()
        A.perm = p
    return A


def lstar_for(A, L, rows):
    op = A.op
    return L.get(op.get("data", 0), op.get("lib", 0), rows)


def tol_mode(dep, A):
    """'exact' when the path's conversion is the in-memory one or the library is in internal units."""
    from . import common

    cfg = dep.program["config"]
    internal = common.internal_units_lib(cfg["libraries"][A.op.get("lib", 0)], {"rv_unit": data_unit(dep, A.op)})
    return "exact" if (A.path == "in_memory" or internal) else "close"


def ll_equal(mode, a, b):
    return oracles.same_values(a, b) if mode == "exact" else oracles.close_ll(a, b)


def returned_nonlinear(out):
    return {k: out["cols"][k]["v"] for k in NONLIN}


def check_rows_unaltered(dep, A, out, expected_rows, prop, sigbase):
    """Returned nonlinear columns == library rows `expected_rows` (each nl times), in order."""
    import astropy.units as u

    v = []
    prior = dep.program["config"]["prior"]
    rvu = data_unit(dep, A.op)
    un, vu = expected_units(prior, rvu)
    for k in NONLIN:
        if k not in out["cols"]:
            v.append(Violation(prop, prop + ".columns", "%s:missing-column" % sigbase, "column %s missing; have %s" % (k, out["names"])))
            return v
    units = {"P": u.day, "omega": u.rad, "M0": u.rad, "s": u.Unit(rvu)}
    rows = np.repeat(np.asarray(expected_rows, dtype=int), A.nl)
    if out["n"] != len(rows):
        v.append(
            Violation(prop, prop + ".count", "%s:wrong-number-of-rows" % sigbase, "returned %d rows, expected %d accepted x %d linear draws (rows %s)" % (out["n"], len(expected_rows), A.nl, list(expected_rows)[:20]))
        )
        return v
    exp = A.lib.nonlinear_in(units, rows) if len(rows) else {k: np.zeros(0) for k in NONLIN}
    for k in NONLIN:
        got = out["cols"][k]["v"]
        if out["cols"][k]["unit"] != un[k]:
            v.append(Violation(prop, prop + ".units", "%s:unit-of-%s" % (sigbase, k), "unit %r expected %r" % (out["cols"][k]["unit"], un[k])))
        f4 = A.lib.spec.get("dtype") == "f4"  # a float32 library converted to another unit is only float32-exact
        if not (oracles.close_ulp(got, exp[k], rel=1e-6) if f4 else oracles.close_ulp(got, exp[k], ulps=16)):
            v.append(
                Violation(
                    prop,
                    prop + ".rows-unaltered",
                    "%s:returned-rows-differ-from-evaluated-library-rows" % sigbase,
                    "column %s: %s ; expected library rows %s" % (k, oracles.first_diff(got, exp[k]), list(expected_rows)[:20]),
                )
            )
            break
    return v


# ---------------------------------------------------------------------------------------------
# C16 at the pool seam


def check_partition(dep, prop="C16"):
    v = []
    probes = {}
    for pl in dep.pools:
        for m in getattr(pl, "map_calls", []):
            tasks = m["tasks"]
            if not tasks:
                v.append(Violation(prop, "C16.nonempty", "C16:pool-seam:no-tasks", "map %s with zero tasks" % m["key"]))
                continue
            kinds = {t["kind"] for t in tasks}
            if "unknown" in kinds:
                probes["observation_lost:task-layout-unknown"] = probes.get("observation_lost:task-layout-unknown", 0) + 1
                continue
            pos = 0
            key = "range" if kinds == {"range"} else "idx"
            probes["seam_%s_maps" % key] = probes.get("seam_%s_maps" % key, 0) + 1
            for i, t in enumerate(tasks):
                if t["kind"] == "range":
                    i1, i2 = t["rows"]
                    ln = i2 - i1
                    if i1 != pos:
                        v.append(Violation(prop, "C16.contiguous", "C16:pool-seam:range-not-contiguous", "map %s task %d starts at %d, expected %d: %s" % (m["key"], i, i1, pos, [x["rows"] for x in tasks][:12])))
                        break
                else:
                    ln = len(t["rows"])
                if ln <= 0 and not (len(tasks) == 1):
                    v.append(Violation(prop, "C16.nonempty", "C16:pool-seam:empty-batch", "map %s task %d empty: %s" % (m["key"], i, [x["rows"] if x["kind"] == "range" else len(x["rows"]) for x in tasks][:12])))
                    break
                if t["start"] != pos:
                    v.append(Violation(prop, "C16.start-index", "C16:pool-seam:task-start-index-wrong", "map %s task %d carries start %r, own start is %d" % (m["key"], i, t["start"], pos)))
                    break
                pos += ln
    return v, probes


# ---------------------------------------------------------------------------------------------
# workload generation shared by C02 / C03 / C06 / C10 / C16


def gen_rejection_kw(rnd, N, path, logprobs=0.0, all_logprobs=0.0, nl_max=4):
    kw = {}
    if rnd.random() < 0.5:
        kw["n_prior_samples"] = rnd.randint(1, N)
    if rnd.random() < 0.5:
        kw["max_posterior_samples"] = rnd.choice([1, 1, 2, 3, rnd.randint(1, N + 2)])
    kw["n_linear_samples"] = rnd.choice([1, 1, 1, 2, 3, nl_max])
    if rnd.random() < 0.04 and nl_max >= 4:
        # rarely a LARGE number of linear draws per sample (tens of thousands of output rows): block-wise generation
        # of the output must not lose a trailing partial block
        kw["n_linear_samples"] = rnd.choice([1500, 4096, 20000])
        kw["max_posterior_samples"] = rnd.randint(3, 40)
    if rnd.random() < 0.5:
        kw["randomize_prior_order"] = True
    if rnd.random() < logprobs:
        kw["return_logprobs"] = True
    if rnd.random() < all_logprobs:
        kw["return_all_logprobs"] = True
    if path != "in_memory":
        from .common import gen_n_batches

        kw["n_batches"] = gen_n_batches(rnd, kw.get("n_prior_samples") or N)
    return kw


def gen_iterative_kw(rnd, N, path, logprobs=0.0):
    kw = {"n_requested_samples": rnd.choice([1, 1, 2, 3, 5, 8, rnd.randint(1, max(1, N))])}
    c = rnd.random()
    if c < 0.55:
        kw["init_batch_size"] = rnd.randint(1, max(1, N))
    elif c < 0.62:
        kw["init_batch_size"] = N + rnd.randint(1, 3)  # library too small -> must raise
    elif c < 0.67:
        kw["init_batch_size"] = 0
    else:
        kw["growth_factor"] = rnd.choice([1, 2, 4, 16, 128])
    if rnd.random() < 0.5:
        kw["max_prior_samples"] = rnd.choice([rnd.randint(1, N), N, N + rnd.randint(1, 5), max(1, N // 2)])
    kw["n_linear_samples"] = rnd.choice([1, 1, 2, 3])
    if rnd.random() < 0.05:
        kw["n_linear_samples"] = rnd.choice([1500, 4096, 20000])  # see gen_rejection_kw
        kw["n_requested_samples"] = rnd.randint(3, 40)
    if rnd.random() < 0.5:
        kw["randomize_prior_order"] = True
    if rnd.random() < logprobs:
        kw["return_logprobs"] = True
    if path != "in_memory" and rnd.random() < 0.6:
        from .common import gen_n_batches

        kw["n_batches"] = gen_n_batches(rnd, min(N, 12))
    return kw


def gen_path(rnd):
    src = rnd.choice(["in_memory", "cache", "file"])
    return {"source": "file" if src == "file" else "object", "in_memory": src == "in_memory"}, src


def add_nan_library(rnd, cfg, base_idx=0, p=0.25):
    """With probability p append a copy of library `base_idx` holding one corrupted stored value
    (storage fault: a flipped stored byte => NaN M0).  Returns the new index or None."""
    if rnd.random() >= p:
        return None
    import copy

    lib = copy.deepcopy(cfg["libraries"][base_idx])
    row = rnd.randrange(lib["n"])
    lib["overrides"] = [[row, "M0", "nan"]]
    cfg["libraries"].append(lib)
    return len(cfg["libraries"]) - 1


def add_alt_units_library(rnd, cfg, base_idx=0, p=0.25):
    """With probability p append a SECOND library for the same prior: same number of rows, same columns and dtypes (so a
    file holding it has the same size), other values, columns stored in other (equivalent) units.  File-path ops then
    share ONE file name ("alias") whose content the user regenerates between calls: every call must reflect what the
    file holds now (no state keyed by file name / size may survive the rewrite).  Returns the new index or None."""
    if rnd.random() >= p:
        return None
    import copy

    from sim.world import LIB_UNIT_CHOICES

    lib = copy.deepcopy(cfg["libraries"][base_idx])
    if lib.get("dtype") != "f8":
        return None
    units = dict(lib["units"])
    for _ in range(8):
        units = {k: rnd.choice(v) for k, v in LIB_UNIT_CHOICES.items()}
        units["s"] = rnd.choice(["km/s", "m/s"])
        if units["P"] != lib["units"]["P"] or units["omega"] != lib["units"]["omega"]:
            break
    lib["units"] = units
    lib["gen_seed"] = rnd.getrandbits(48)
    lib["tag_shift"] = 0.5  # its ln_prior tags differ from the base library's, row for row
    lib.pop("overrides", None)
    cfg["libraries"].append(lib)
    return len(cfg["libraries"]) - 1


def use_alt_library(rnd, op, alt, p_alias=0.8):
    """Route an op to the alternate library half of the time; file-path ops (of either library) go through the shared name."""
    if alt is None:
        return
    if rnd.random() < 0.5:
        op["lib"] = alt
    if op.get("source") == "file" and not op.get("in_memory") and rnd.random() < p_alias:
        op["alias"] = "shared"
        op["alias_mode"] = rnd.choice(["overwrite", "overwrite", "append-overwrite"])


def add_neg_inf_profile(rnd, cfg, lib_idx=0, p=0.15):
    """With probability p force -inf likelihood on 1..3 rows of a library (kernel-output stub)."""
    if rnd.random() >= p:
        return False
    n = cfg["libraries"][lib_idx]["n"]
    if n < 2:
        return False
    k = rnd.randint(1, min(3, n - 1))
    rows = sorted(rnd.sample(range(n), k))
    cfg.setdefault("ll_override", {})[str(lib_idx)] = {"rows": rows, "value": "-inf"}
    return True


def add_arg_types(rnd, op, p=0.2):
    """With probability p ask for some integer / boolean options to be passed as numpy scalars (or 1 for True)."""
    if rnd.random() >= p:
        return
    kt = {}
    for k, val in op.get("kw", {}).items():
        if isinstance(val, bool):
            if val and rnd.random() < 0.7:
                kt[k] = rnd.choice(["np.bool", "int01"])
        elif isinstance(val, int) and k in ("n_prior_samples", "max_posterior_samples", "max_prior_samples", "n_requested_samples", "init_batch_size", "n_batches", "n_linear_samples"):
            if rnd.random() < 0.6:
                kt[k] = rnd.choice(["i8", "i8", "i4"])
    if kt:
        op["kw_types"] = kt


def add_concurrent(rnd, prog, p=0.12):
    """With probability p one sampling op of the program gets a SECOND CALLER: a complete call by another TheJoker
    (own generator, real SerialPool, same process, same temp directory) that runs while the op is inside pool.map.
    Two callers never share anything but the inputs they were both given, so neither may notice the other."""
    if rnd.random() >= p:
        return None
    cands = [o for o in prog["ops"] if o.get("op") in ("rejection", "iterative", "mll") and not o.get("in_memory") and o.get("joker", "main") in ("main", "fresh")]
    if not cands:
        return None
    op = rnd.choice(cands)
    cfg = prog["config"]
    li = rnd.randrange(len(cfg["libraries"]))
    N = cfg["libraries"][li]["n"]
    path, pname = gen_path(rnd)
    kind = rnd.choice(["rejection", "rejection", "iterative", "mll"])
    nop = {"id": 7000 + op["id"], "op": kind, "data": rnd.randrange(len(cfg["datasets"])), "lib": li, "rng_seed": rnd.getrandbits(30), "role": "second-caller",
           # a thread of the same process, or a sibling PROCESS forked when the run started (module state of that moment, other pid)
           "forked": rnd.random() < 0.5,
           # the second caller may itself be suspended on entering its k-th pool.map (its cache file exists by then) and
           # finish only after the first caller's op: the two calls truly overlap
           "park_at_map": rnd.choice([None, None, 0, 0, 1])}
    nop.update(path)
    if rnd.random() < 0.6:
        nop["source"], nop["in_memory"] = "object", False  # the cache path: both callers write temporary files
    if kind == "rejection":
        nop["kw"] = gen_rejection_kw(rnd, N, pname)
    elif kind == "iterative":
        nop["kw"] = gen_iterative_kw(rnd, N, pname)
        nop["kw"]["init_batch_size"] = rnd.randint(1, max(1, N))
    else:
        nop["n_batches"] = rnd.choice([None, 1, 2, 3])
    for k in ("return_logprobs", "return_all_logprobs"):
        nop.get("kw", {}).pop(k, None)
    op["concurrent"] = {"at_map": rnd.choice([0, 0, 1, 1, 2]), "at_slot": rnd.choice([0, 0, 1, 2, "end"]), "op": nop}
    return op


def add_failed_op(rnd, prog, p=0.12, roles=None):
    """With probability p one call of the history -- never the last one -- FAILS half-way: a worker dies before or
    after one task of one of its pool.map calls (the other chunks finish, as on a real pool), or pool.map itself breaks.
    The failed call has to raise; what the property promises for the LATER calls on the same sampler, files and
    process is unchanged, so they are judged exactly as in a fault-free history (state left behind by a failed call)."""
    if rnd.random() >= p or len(prog["ops"]) < 2:
        return None
    cfg = prog["config"]
    cands = [o for o in prog["ops"][:-1]
             if o.get("op") in ("rejection", "iterative", "mll") and not o.get("concurrent")
             and o.get("pool", cfg.get("pool", {})).get("kind") == "sim" and (roles is None or o.get("role") in roles)]
    if not cands:
        return None
    op = rnd.choice(cands)
    f = {"kind": rnd.choice(["worker", "worker", "worker", "map"]), "op": op["id"], "map": rnd.choice([0, 0, 0, 1, 2]),
         "task": rnd.choice([None, None, 0, 1, 3]), "when": rnd.choice(["before", "after"])}
    prog.setdefault("faults", []).append(f)
    op["injected_fault"] = f
    return op


def rebind_faults(prog):
    """After ops were renumbered: the fault follows its op."""
    for o in prog["ops"]:
        if o.get("injected_fault"):
            o["injected_fault"]["op"] = o["id"]


def failed_as_injected(rec):
    """The op carries an injected pool fault and raised with it on the chain."""
    return bool(rec["op"].get("injected_fault")) and rec.get("raised") is not None and any("SIMFAULT" in (m or "") for _t, m in rec["raised"])


def check_concurrent(dep, prop, probes):
    """Every call a second caller made in the middle of another call must return what the same call returns alone."""
    from . import c10

    v = []
    tmp = os.path.realpath(dep.world.tmpdir)
    for orec in dep.history:
        if orec.get("concurrent_fired") and orec.get("raised"):
            for tname, msg in orec["raised"]:
                if tname in ("FileNotFoundError", "OSError", "PermissionError", "BlockingIOError", "KeyError", "HDF5ExtError", "NoSuchNodeError") and (tmp in str(msg) or dep.world.tmpdir in str(msg)):
                    v.append(Violation(prop, prop + ".concurrent-callers", "%s:first-caller:%s:fails-on-its-temporary-file-while-a-second-caller-is-active" % (prop, orec["op"]["op"]),
                                       "op %s raised %s while another TheJoker made a call of its own" % (orec["op"].get("id"), orec["raised"][:2])))
                    break
    for rec in list(dep.concurrent):
        probes["second_caller_calls_interleaved"] = probes.get("second_caller_calls_interleaved", 0) + 1
        alone = dep.run_concurrent(rec["op"], during=None)
        if rec.get("tmp_left"):
            v.append(Violation(prop, prop + ".concurrent-callers", "%s:second-caller:%s:temporary-file-left-behind" % (prop, rec["op"]["op"]),
                               "a %s call made by another TheJoker (%s) while op %s was inside pool.map left %s behind" % (rec["op"]["op"], "forked sibling" if rec["op"].get("forked") else "same process", rec["during"], rec["tmp_left"][:3])))
        if rec["op"].get("forked"):
            probes["second_caller_was_a_forked_sibling"] = probes.get("second_caller_was_a_forked_sibling", 0) + 1
        if rec.get("was_parked"):
            probes["second_caller_suspended_mid-call_and_resumed_after_the_first"] = probes.get("second_caller_suspended_mid-call_and_resumed_after_the_first", 0) + 1
        diff = c10._same_output(rec, alone)
        if diff is not None:
            v.append(Violation(prop, prop + ".concurrent-callers", "%s:second-caller:%s:result-differs-from-the-same-call-made-alone" % (prop, rec["op"]["op"]),
                               "a %s call made by another TheJoker while op %s was inside pool.map: %s" % (rec["op"]["op"], rec["during"], diff)))
    return v
