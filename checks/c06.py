"""C06 -- ln_prior / ln_likelihood stay attached to their own sample (rejection + iterative)."""
import numpy as np

from sim import oracles, tape
from sim.oracles import Violation

from . import c02, c14, common, sampling

PROPERTY = "C06"


def generate(seed, tier="quick"):
    rnd = tape.sub(seed, PROPERTY, "gen")
    prog = c02.generate(seed, tier, prop=PROPERTY, logprobs=0.75, all_logprobs=0.4)
    cfg = prog["config"]
    N = cfg["libraries"][0]["n"]
    # bias toward the index spaces differing: shuffle + subset + truncation
    for op in prog["ops"]:
        if op["op"] == "rejection" and rnd.random() < 0.5 and N >= 3:
            op["kw"]["randomize_prior_order"] = True
            op["kw"]["n_prior_samples"] = rnd.randint(max(1, N // 2), N)
            if rnd.random() < 0.5:
                op["kw"]["max_posterior_samples"] = rnd.randint(1, 3)
    oid = len(prog["ops"])
    for _ in range(rnd.randint(1, 2)):
        p, pname = sampling.gen_path(rnd)
        op = {"id": oid, "op": "iterative", "data": rnd.randrange(len(cfg["datasets"])), "lib": 0, "joker": "main", "role": "target"}
        op.update(p)
        sampling.use_alt_library(rnd, op, prog.get("alt_lib"))
        op["kw"] = sampling.gen_iterative_kw(rnd, N, pname, logprobs=0.8)
        if op["kw"].get("init_batch_size") == 0 or op["kw"].get("init_batch_size", 0) > N:
            op["kw"]["init_batch_size"] = rnd.randint(1, N)
        sampling.add_arg_types(rnd, op)
        prog["ops"].append(op)
        oid += 1
    rnd.shuffle(prog["ops"])
    for i, op in enumerate(prog["ops"]):
        op["id"] = i
    sampling.rebind_faults(prog)
    return prog


def judge_logprobs(dep, rec, info, L, probes, kind):
    """Given the C02/C14 analysis of the op (expected rows), judge the logprob columns."""
    v = []
    A = info["A"]
    op = rec["op"]
    kw = A.kw
    sig = "C06:%s:%s" % (kind, A.path)

    def probe(k, n=1):
        probes[k] = probes.get(k, 0) + n

    want_lp = bool(kw.get("return_logprobs"))
    want_all = bool(kw.get("return_all_logprobs"))
    if rec["raised"] is not None:
        ll = info.get("ll")
        if ll is not None and len(ll) and (np.any(np.isnan(ll)) or not np.any(np.isfinite(ll))):
            return v  # NaN, or no finite likelihood among the evaluated rows: outside the quantifier
        if info.get("legit_raise"):
            return v
        if want_lp and A.nl > 1:
            v.append(Violation(PROPERTY, "C06.raises", "C06:return_logprobs+n_linear_samples>1:raises", "%s raised %s" % (op, rec["raised"])))
        elif want_lp or want_all:
            v.append(Violation(PROPERTY, "C06.raises", sig + ":raises:%s" % rec["raised"][-1][0], "%s raised %s" % (op, rec["raised"])))
        return v
    out = info.get("out")
    if out is None or not info.get("judged"):
        return v
    mode = sampling.tol_mode(dep, A)
    expected_rows = info["expected_rows"]
    rows = np.repeat(np.asarray(expected_rows, dtype=int), A.nl)
    if want_all:
        allv = info.get("all_ll")
        if allv is None or allv.get("type") != "ndarray":
            v.append(Violation(PROPERTY, "C06.all-logprobs", sig + ":return_all_logprobs-missing", "second return value: %s" % (allv,)))
        else:
            probe("all_logprobs_checked")
            if not sampling.ll_equal(mode, allv["v"], info["ll"]):
                v.append(Violation(PROPERTY, "C06.all-logprobs", sig + ":all-logprobs-not-in-evaluation-order", oracles.first_diff(allv["v"], info["ll"])))
    if not want_lp:
        return v
    probe("logprobs_checked")
    if len(set(info.get("E", []))) and list(info.get("E")) != sorted(info.get("E")):
        probe("logprobs_with_shuffled_order")
    for name in ("ln_prior", "ln_likelihood"):
        if name not in out["cols"]:
            v.append(Violation(PROPERTY, "C06.columns", sig + ":%s-missing" % name, "columns %s" % out["names"]))
            return v
        c = out["cols"][name]
        if not c["dtype"].startswith("float") or len(c["shape"]) != 1:
            v.append(
                Violation(PROPERTY, "C06.scalar", sig + ":%s-not-scalar" % name, "column %s has dtype %s shape %s (expected plain floating-point scalars)" % (name, c["dtype"][:80], c["shape"]))
            )
            return v
        if c["shape"][0] != len(rows):
            v.append(Violation(PROPERTY, "C06.length", sig + ":%s-length" % name, "%d values for %d rows" % (c["shape"][0], len(rows))))
            return v
    tags = A.lib.tags[rows] if len(rows) else np.zeros(0)
    if not oracles.same_values(out["cols"]["ln_prior"]["v"], tags):
        v.append(
            Violation(
                PROPERTY,
                "C06.tag-attribution",
                sig + ":ln_prior-belongs-to-another-sample",
                "ln_prior tags name rows %s, returned rows are %s" % ([int(round(-x - 0.25)) for x in out["cols"]["ln_prior"]["v"][:12]], rows[:12].tolist()),
            )
        )
    ref = sampling.lstar_for(A, L, rows) if len(rows) else np.zeros(0)
    if not sampling.ll_equal(mode, out["cols"]["ln_likelihood"]["v"], ref):
        v.append(Violation(PROPERTY, "C06.ll-attribution", sig + ":ln_likelihood-belongs-to-another-sample", oracles.first_diff(out["cols"]["ln_likelihood"]["v"], ref)))
    return v


def evaluate(dep, program):
    probes = {}
    v = []
    L = oracles.LStar(dep.world)
    for rec in dep.history:
        k = rec["op"]["op"]
        scratch = {}
        if k == "rejection":
            vv, info = c02.judge_rejection(dep, rec, L, "C06x", scratch)
            v += judge_logprobs(dep, rec, info, L, probes, "rejection")
        elif k == "iterative":
            vv, info = c14.judge_iterative(dep, rec, L, "C06x", scratch)
            v += judge_logprobs(dep, rec, info, L, probes, "iterative")
        else:
            continue
        if sampling.failed_as_injected(rec):
            probes["failed_op_in_history(injected pool fault, raised)"] = probes.get("failed_op_in_history(injected pool fault, raised)", 0) + 1
        for kk in ("judged_ops", "randomized_order", "truncated_by_max_posterior_samples", "path:file", "path:cache", "path:in_memory"):
            if kk in scratch:
                probes[kk] = probes.get(kk, 0) + scratch[kk]
    probes["lstar_evals"] = L.evals
    for rec_ in dep.results_changed_after_return():
        v.append(Violation("C06", "C06.result-mutated", "C06:%s:result-returned-earlier-was-changed-by-a-later-call" % rec_["op"]["op"], "the object returned by op %s no longer holds the values it held when it was returned" % (rec_["op"],)))
    v += sampling.check_concurrent(dep, "C06", probes)
    if program["config"].get("ll_override"):
        probes["runs_with_neg_inf_profile_stub(kernel output overridden)"] = 1
    return v, probes
