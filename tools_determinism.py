#!/usr/bin/env python3
"""Determinism self-test at scale (DESIGN 2.2 / 5).

For each property: N seeds are executed (A) in ONE fresh interpreter sequentially and (B) again spread
over 16 concurrent fresh interpreters, with different PYTHONHASHSEED values; the per-seed event-log
digests must match.  Writes evidence/determinism.json; exit 0 iff no mismatch.
"""
import json
import os
import subprocess
import sys
import time

HERE = os.path.dirname(os.path.abspath(__file__))
sys.path.insert(0, HERE)
from sim import stage as stage_mod  # noqa: E402

PY = "/venv/bin/python"
PROPS = ["C02", "C03", "C05", "C06", "C10", "C12", "C13", "C14", "C16"]


def env(stage_dir, hs):
    e = dict(os.environ)
    e["PYTHONPATH"] = stage_dir + os.pathsep + HERE
    e["PYTHONHASHSEED"] = str(hs)
    os.makedirs(os.path.join(stage_dir, "tmp"), exist_ok=True)
    e["TMPDIR"] = os.path.join(stage_dir, "tmp")
    for k in ("OMP_NUM_THREADS", "OPENBLAS_NUM_THREADS", "MKL_NUM_THREADS", "NUMBA_NUM_THREADS"):
        e[k] = "1"
    return e


def run(stage_dir, prop, seeds, hs, out):
    return subprocess.Popen(
        [PY, "-m", "sim.worker", "--prop", prop, "--tier", "quick", "--seeds", ",".join(map(str, seeds)), "--out", out, "--hard-timeout", "3000", "--replay-dir", os.path.join(stage_dir, "rp")],
        cwd=HERE, env=env(stage_dir, hs), stdout=subprocess.DEVNULL, stderr=subprocess.DEVNULL)


def read(path):
    d = {}
    if os.path.exists(path):
        for line in open(path):
            try:
                j = json.loads(line)
            except Exception:
                continue
            if "seed" in j:
                d[j["seed"]] = j
    return d


def main():
    n = int(sys.argv[1]) if len(sys.argv) > 1 else 64
    props = sys.argv[2].split(",") if len(sys.argv) > 2 else PROPS
    stage_dir, tree = stage_mod.stage()
    report = {"tree": tree["repo_head"], "per_property": {}}
    bad = 0
    try:
        for prop in props:
            t0 = time.time()
            nn = max(4, n // 8) if prop == "C13" else n
            seeds = [7_000_003 * 3 + i for i in range(nn)]
            outA = os.path.join(stage_dir, "detA-%s.jsonl" % prop)
            ps = [run(stage_dir, prop, seeds[i::2], 11 + i, outA + str(i)) for i in range(2)]
            # B concurrently: 14 more processes (=> 16 at once), other hash seeds
            k = 14
            outsB = []
            for i in range(k):
                sl = seeds[i::k]
                if not sl:
                    continue
                o = os.path.join(stage_dir, "detB-%s-%d.jsonl" % (prop, i))
                outsB.append(o)
                ps.append(run(stage_dir, prop, sl, 500 + i, o))
            for p in ps:
                p.wait()
            A = {}
            for i in range(2):
                A.update(read(outA + str(i)))
            B = {}
            for o in outsB:
                B.update(read(o))
            mism = []
            cmp_n = 0
            for s in seeds:
                a, b = A.get(s), B.get(s)
                if not a or not b or a.get("harness_error") or b.get("harness_error"):
                    if (a and a.get("harness_error")) or (b and b.get("harness_error")):
                        mism.append({"seed": s, "harness_error": True})
                    continue
                if a.get("digest") is None or b.get("digest") is None:
                    continue
                cmp_n += 1
                if a["digest"] != b["digest"]:
                    mism.append({"seed": s, "a": a["digest"], "b": b["digest"]})
            report["per_property"][prop] = {"seeds": nn, "compared": cmp_n, "mismatches": mism[:10], "n_mismatch": len(mism), "wall_s": round(time.time() - t0, 1)}
            bad += len(mism)
            print(prop, report["per_property"][prop], flush=True)
    finally:
        stage_mod.unstage(stage_dir)
    os.makedirs(os.path.join(HERE, "evidence"), exist_ok=True)
    with open(os.path.join(HERE, "evidence", "determinism.json"), "w") as f:
        json.dump(report, f, indent=1)
    return 1 if bad else 0


if __name__ == "__main__":
    sys.exit(main())
