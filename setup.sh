#!/bin/sh
# Offline setup: nothing to install (interpreter /venv/bin/python has numpy, dill, h5py, tables, pymc).
# Warms the pytensor/numba compile cache and proves the staged tree imports.
set -e
cd "$(dirname "$0")"
mkdir -p evidence replays
OMP_NUM_THREADS=1 NUMBA_NUM_THREADS=1 timeout 900 /venv/bin/python - <<'PY'
import sys, warnings
warnings.filterwarnings("ignore")
sys.path.insert(0, ".")
from sim import stage
d, info = stage.stage()
sys.path.insert(0, d)
try:
    from sim import world
    for spec in world.PRIOR_PALETTE:
        world.get_prior(spec)
    import thejoker
    print("setup ok: staged", info["repo_head"][:10], "kernel", (info["kernel_sha256"] or "")[:12], "rebuilt" if info["kernel_rebuilt_from_c"] else "reused")
finally:
    stage.unstage(d)
PY
