#!/usr/bin/env python3
"""Regenerates MANIFEST.json from the table below (keeps it valid at all times)."""
import json, os, sys
HERE = os.path.dirname(os.path.abspath(__file__))
sys.path.insert(0, HERE)
import importlib.util
spec = importlib.util.spec_from_file_location("meta", os.path.join(HERE, "checks", "meta.py"))
m = importlib.util.module_from_spec(spec); spec.loader.exec_module(m)

NA = {
 "C01": "Value of the marginal likelihood vs. the analytic Gaussian marginal: a pure numerical identity over inputs x configurations; no schedule, history or fault enters it (the history/batching side is C05, claimed).",
 "C04": "Bayes identity between kernel and get_orbit/ln_unmarginalized_likelihood: equality of two pure code paths at every parameter point; nothing to schedule or fail.",
 "C07": "Unit invariance: a metamorphic relation between two pure evaluations of the same problem; the only path-dependent part (pack vs read_batch conversions) is exercised under C05.",
 "C08": "Survey-label alignment after merge-and-sort: pure function of the input arrays ('interleaving' here is of epochs in the data, not of execution).",
 "C09": "Sampler/density agreement of the prior distributions: a statistical statement about pure draw/logp functions; only its reproducibility aspect is schedulable and sits in C10.",
 "C11": "Equality of the pymc model function and log-density with the sampler's model: pure function comparison over parameter space.",
 "C15": "RVData pairing under sort/filter/copy/slice: pure function of constructor inputs.",
 "C17": "wrap_K / get_t0 / pack-unpack / indexing invariances of a sample table: pure table transformations (file round-trip part is C12, claimed).",
 "C18": "Acceptance/rejection of invalid priors and data: pure validation of arguments; no fault other than the argument itself.",
 "C19": "MAP_sample / phase-gap / coverage definitions: pure arithmetic on arrays.",
}
checks = []
for pid, meta in sorted(m.META.items()):
    if not meta.get("registered", True):
        continue
    checks.append({
        "property_id": pid,
        "quick_cmd": "./check %s --tier quick" % pid,
        "thorough_cmd": "./check %s --tier thorough" % pid,
        "evidence_file": "evidence/%s.json" % pid,
        "replay_cmd_template": "./check %s --replay {path}" % pid,
        "engine": "dst",
        "level_claimed": {"category": meta["level"], "text": meta["level_text"], "design_ref": meta.get("design_ref", "DESIGN.md section 4")},
        "level_note": meta["level_note"],
        "technique": meta["technique"],
    })
claimed = {c["property_id"] for c in checks}
man = {
 "version": 1,
 "setup_cmd": "./setup.sh",
 "hooks": {"guard": "ADRN_THEJOKER_VERIF", "enable": "no hooks in /repo: pool and generator are constructor arguments, file/call seams are reached from outside (module attributes, sys.monitoring)", "baseline_off_cmd": "cd /repo && /venv/bin/python -m pytest -ra -q -p no:cacheprovider --timeout=900 --continue-on-collection-errors", "source_commits": [], "add_only": True},
 "engines": [{"name": "dst", "path": "sim/", "serves_properties": sorted(claimed), "kind_free_text": "deterministic simulation with fault injection: seeded scheduler/transport SimPool, recording numpy Generator, storage/call-level fault injector (sys.monitoring), reference-model oracles, ddmin shrinker, literal replay"}],
 "checks": checks,
 "notes": "Exit codes of ./check: 0 held (KNOWN-FINDING lines possible), 1 VIOLATION property=<id> replay=<path>, 2 HARNESS-ERROR. VERIF_SEED / VERIF_TIER / VERIF_BUDGET_S honoured. See DESIGN.md.",
 "not_applicable": [{"property_id": k, "reason": v} for k, v in sorted(NA.items())] + [
     {"property_id": pid, "reason": "claimed in DESIGN.md; check not yet registered (under construction)"} for pid in ["C02","C03","C05","C06","C10","C12","C13","C14","C16"] if pid not in claimed],
}
json.dump(man, open(os.path.join(HERE, "MANIFEST.json"), "w"), indent=1)
print("wrote MANIFEST.json with", sorted(claimed))
